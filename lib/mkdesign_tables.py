#!/usr/bin/env python3
"""Regenerates the seeded-change table in DESIGN.md from seeded/*/meta.json and selftest/revert_results_*.json"""
import json, glob, os, re
rows = []
for d in sorted(glob.glob('/verif/seeded/*/meta.json')):
    m = json.load(open(d))
    det = m.get('detection', {})
    cells = []
    for tier in ('quick', 'thorough'):
        r = det.get(tier, {}).get(m['breaks_property'])
        if r is None:
            cells.append('-')
        else:
            cells.append(('**caught** ' + '; '.join(s.split('  (')[0] for s in r['signatures'][:2])) if r['exit'] == 1 else 'MISSED')
    diffstat = ''
    try:
        files = re.findall(r'^\+\+\+ b/(\S+)', open(os.path.join(os.path.dirname(d), 'patch.diff')).read(), re.M)
        diffstat = ', '.join(f.replace('src/push/', '') for f in files)
    except Exception:
        pass
    note = m.get('note', '')
    rows.append('| %s | %s | %s | %s | %s | %s |' % (m['name'], m['breaks_property'], diffstat, cells[0], cells[1], note))
txt = ['| seeded change | property | touches | quick check | thorough check | note |', '|---|---|---|---|---|---|'] + rows
for tier in ('quick', 'thorough'):
    f = '/verif/selftest/revert_results_%s.json' % tier
    if os.path.exists(f):
        res = json.load(open(f))
        ok = [r for r in res if r.get('exit') == 1]
        txt.append('')
        txt.append('Reverted fixes (%s tier): %d of %d re-introduced defects reported by the check of their own property%s.' % (
            tier, len(ok), len(res), '' if len(ok) == len(res) else '; missed: ' + ', '.join('%s (%s)' % (r['commit'], r['property']) for r in res if r.get('exit') != 1)))
p = '/verif/DESIGN.md'
s = open(p).read()
s = re.sub(r'<!-- SEEDED-TABLE-BEGIN -->.*<!-- SEEDED-TABLE-END -->', '<!-- SEEDED-TABLE-BEGIN -->\n' + '\n'.join(txt) + '\n<!-- SEEDED-TABLE-END -->', s, flags=re.S)
open(p, 'w').write(s)
print('\n'.join(txt))
