#!/usr/bin/env python3
"""Regenerates /verif/MANIFEST.json from lib/propcfg.py + lib/manifest_text.py."""
import json, os, sys
ROOT = os.path.dirname(os.path.dirname(os.path.abspath(__file__)))
sys.path.insert(0, os.path.join(ROOT, "lib"))
from propcfg import PROPS
from manifest_text import TEXT, HOOK_COMMITS, NOT_APPLICABLE

props = [json.loads(l)["id"] for l in open(os.path.join(ROOT, "properties.jsonl"))]
checks = []
na = []
for p in props:
    if p in PROPS and p in TEXT:
        t = TEXT[p]
        checks.append({
            "property_id": p,
            "quick_cmd": "./check %s quick" % p,
            "thorough_cmd": "./check %s thorough" % p,
            "evidence_file": "/verif/evidence/%s.json" % p,
            "replay_cmd_template": "./check --replay {path}",
            "engine": "pvmon",
            "level_claimed": {"category": t.get("category", "exploration"), "text": t["level"], "design_ref": "DESIGN.md section 3, %s" % p},
            "level_note": t["note"],
            "technique": t["technique"] + ("; thorough tier adds a coverage-guided stage: libFuzzer mutating the decision tape of the same generators, every execution judged by the same monitors" if PROPS[p].get("fuzz") else ""),
        })
    else:
        na.append({"property_id": p, "reason": NOT_APPLICABLE.get(p, "runtime monitor for this property is not built yet (work in progress); no claim is made")})
m = {
    "version": 1,
    "setup_cmd": "./check --build",
    "hooks": {
        "guard": "cargo feature `verif` of pushr (off by default)",
        "enable": "the harness crate depends on pushr = { path = \"/repo\", features = [\"verif\"] }; every ./check run rebuilds it from /repo's working tree",
        "baseline_off_cmd": "cd /repo && cargo test --workspace --no-fail-fast --offline",
        "source_commits": HOOK_COMMITS,
        "add_only": True,
    },
    "engines": [{"name": "pvmon", "path": "/verif/harness", "serves_properties": [c["property_id"] for c in checks],
                 "kind_free_text": "Rust harness: reference-model / frame / history / trace monitors over the real pushr library, counting allocator, panic capture; python supervisor ./check (sharding, abort/hang mapping, aggregation, evidence); harness/fuzz = libFuzzer entry over the harness generators' decision tape (thorough tier)"}],
    "checks": checks,
    "not_applicable": na,
    "notes": "Technique family: runtime monitoring and sanitizers. See DESIGN.md. Known findings: known_findings.json.",
}
json.dump(m, open(os.path.join(ROOT, "MANIFEST.json"), "w"), indent=1)
print("checks:", [c["property_id"] for c in checks], "not_applicable:", [n["property_id"] for n in na])
