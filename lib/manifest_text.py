HOOK_COMMITS = ["715928e", "6de60b1"]
NOT_APPLICABLE = {}
TEXT = {
    "C01": dict(
        technique="runtime monitoring: supervised crash/abort/hang monitor (panic hook + catch_unwind, counting allocator, CPU-time watchdog) over boundary sweeps and generated programs, debug+release",
        level="Exploration: every registered instruction is executed on hundreds to thousands of boundary-value states and tens of thousands of generated programs (harness grammar and pushr's own generator) are run by step() and run() in both build profiles under a supervisor that maps panics, aborts, stack overflows and CPU-burning hangs to the failing case. Long runs under budgets of 70 000 - 300 000 steps and well-formed LIST.NEIGHBOR* calls up to the envelope are included. Held means: no crash on the executions observed; paths the generators do not reach are not covered.",
        note="Trusts the Rust panic/abort mechanisms to surface failures; EXEC.CMD is stubbed; operand-sized allocations above the stated envelope (5000 elements; 70 000 for LIST.NEIGHBOR*, whose cost is linear) are counted, not judged (C15).",
    ),
    "C04": dict(
        technique="runtime monitoring: differential step monitor against an independent reference model + frame monitor, all boundary pairs, debug/release digest comparison",
        level="Exploration with an exhaustive core: all 256 boundary-pool operand pairs per instruction, every value of the extended pools (literals of pushr's source, special points of the elementary functions, each with neighbours) once as top operand, back-to-back executions on operands that compare equal and differ, plus thousands of random pairs, each step compared on every stack with a reference model of the documented semantics; post-state digests of the debug and release builds compared.",
        note="The reference model (harness/src/refm.rs, transcribed from the doc comments) is trusted; unrepresentable results are judged on shape only, as the statement allows.",
    ),
    "C05": dict(
        technique="runtime monitoring: exhaustive small-scope differential monitor with one generic position map + multiset conservation monitor",
        level="Exhaustive on the stated grid (all 9 stack types x all ops x depths 0..7 x all index classes incl. MIN/MAX, unique element values / one-hot boolean families, an 'empty value' variant and an equal-but-distinguishable twins variant), compared with one generic position map; conservation checked separately. Beyond depth 7 (10 thorough) nothing is claimed.",
        note="Trusts the generic position map in refm.rs::generic_stack_op; uniformity across types follows because every type is compared with the same map.",
    ),
    "C09": dict(
        technique="runtime monitoring: differential step monitor, exhaustive over small lengths/offsets, reference selected by instruction NAME",
        level="Exhaustive over length pairs 0..4 x offsets (incl. MIN/MAX) for the overlap family and over lengths x index classes for GET/SET and the rest, with value draws from boundary pools; long vectors to 48 elements; one vector of 2^24+64 elements per constructor; each step compared with the README/doc-comment reference.",
        note="Reference model trusted; SINE compared with a tolerance; RAND instructions judged by predicates (C13 has the statistics).",
    ),
    "C10": dict(
        technique="runtime monitoring: frame / conservation monitor from a declarative needs-pops-writes table over all missing-operand patterns",
        level="Exhaustive over (instruction x operand-stack depth patterns in prod(0..=need)) for all 280 registered names, with random bystanders and guard-failing operands; a context sweep (every instruction as last body item inside each control structure) and the real EXEC.CMD on a harmless target; every observed step is checked against the frame table, which covers every component of the state including flags and configuration.",
        note="The frame table (harness/src/frame.rs, from SPEC-instructions.md) is trusted.",
    ),
}
TEXT["C08"] = dict(
    technique="runtime monitoring: differential step monitor + direct API oracle over preorder flattening + metamorphic follow-up steps (INSERT/EXTRACT, POSITION/EXTRACT, DISCREPANCY symmetry)",
    level="Exploration: thousands of random code trees (<= 14 points, one in six up to 80 points; all atom kinds) with planted occurrences (also repeated at different depths), near misses (ulp neighbours, print twins, same text / different kind) and purposeful SUBST roles; every list-surgery instruction and every Item::* indexing function is compared with an independent preorder-flattening reference at every point index in [-2S,2S] and at MIN/MAX; the statement's equations are also checked as follow-up executions.",
    note="Reference (refm.rs) trusted. CODE.MEMBER is judged only on the two implications every reading of its (copied) documentation shares; CODE.= on items that print alike but differ structurally is a don't-care.",
)
TEXT["C03"] = dict(
    technique="runtime monitoring: crash monitor + structural differential oracle (independent token classification / tree builder) over exhaustive short token sequences, hostile random strings and random balanced trees, debug+release",
    level="Exhaustive for all token sequences up to length 5 (7 thorough) over a hostile 8-token alphabet; exploration beyond (tens of thousands of hostile strings and balanced trees with all atom kinds, Unicode whitespace, multi-byte tails, 10^4-byte tokens, nesting to 4200 levels compared structurally, numbers spelled with hundreds of digits and beside f32 rounding midpoints, single-character edits of valid vector literals, user-registered instructions spelled like literals). For balanced inputs the EXEC stack is compared structurally with the tree the text describes; for all inputs no panic and no change to any other stack.",
    note="Integer/float lexical well-formedness is defined by Rust's from_str (same as the parser uses); empty-payload vector literals are a documented don't-care.",
)
TEXT["C16"] = dict(
    technique="runtime monitoring: operation-history checker against an executable sequential model (Vec), exhaustive small scope + long random histories, unique element ids",
    level="Exhaustive for every history of length <= 3 (4 thorough) over 94 operation instances of the whole public API (incl. clone_from) from two start states; random histories of 300 ops beyond with positions up to usize::MAX, varying argument capacities, print-twin and huge elements. After every operation return value, full contents and printed form are compared with the model.",
    note="`swap(i,j)` (raw vector indices, not in the statement's list) is exercised with in-range indices only. last_eq is modelled as documented (shallow for Items).",
)
TEXT["C17"] = dict(
    technique="runtime monitoring: history checker against a bounded-sequence model + representation-invariant hook (verif_cursors) + differential step monitor for INPUT/OUTPUT instructions",
    level="Exhaustive for all histories of length <= 6 (8 thorough) over {push, push_force, pop, flush} on capacities 1..5, both kinds; long random histories with many wrap-arounds; all read operations (incl. the iterator through nth / skip / step_by / last / count and far indices) evaluated after every op; default-valued elements and messages; cursor invariant asserted at every quiescent point; INPUT/OUTPUT instruction sequences against a FIFO model.",
    note="OUTPUT.WRITE on a full queue is dropped by the documented plain-push rule; such drops are counted in the evidence, not flagged.",
)
TEXT["C18"] = dict(
    technique="runtime monitoring: history checker against a set-based model keyed by returned ids (API) + differential step monitor (GRAPH.* instructions), snapshot-independence monitor",
    level="Exhaustive for all API histories of length <= 3 (4 thorough) on 3 node slots + a never-issued id; random histories of 200 ops on 12 slots (incl. remove-and-re-add of an edge, several edges per destination, zero-like weights); instruction histories with valid / stale / bogus ids and history depths {-1,0,..,size,MAX}. After every op structure, getters, filter, sizes, all earlier snapshots and diff are compared with the model.",
    note="Query results are compared as sets (HashMap order is free); diff on graphs with NaN weights is a don't-care.",
)
TEXT["C20"] = dict(
    technique="runtime monitoring: exhaustive-grid differential monitor against an integer brute-force oracle + metamorphic monitors (symmetry, monotonicity, bijection) + differential step monitor for LIST.NEIGHBOR*",
    level="Exhaustive on the stated grid: every (ntotal <= 130, ndim <= 4, index, 11 radii) in quick, ntotal to 1100 (all perfect powers) and ndim to 6 in thorough; symmetry over all pairs; decomposition bijection on every hypercube up to 20000 (300000) cells; fully filled hypercubes k^d and k^d +- 1 in 3..12 dimensions with lattice radii; totals above 2^24.",
    note="Points whose exact distance is within 1e-5 (relative) of the radius are don't-cares (f32 rounding of sqrt).",
)
TEXT["C06"] = dict(
    technique="runtime monitoring: trace checker over events emitted by a harness-registered probe instruction (offline comparison with the documented iteration sequence) + differential step monitor against the unfolding rules",
    level="Exploration with exhaustive small loop counts: every n in -1..6 (12 thorough) for each loop kind, generated bodies with conditionals and loops nested to depth 3; the probe trace (INDEX stack, INTEGER top) is compared event by event with the documented sequence and the loops must leave nothing behind; every single step of these programs and of random control programs is judged against the reference unfolding rules; a context sweep runs every registered instruction as the last item of a body inside each control structure.",
    note="CODE.LOOP's whole-loop behaviour is a known finding (re-arm shape pinned by a unit test); its single-step shape is still judged, so a change to it is reported under a different signature.",
)
TEXT["C02"] = dict(
    technique="runtime monitoring: pair-of-executions comparison (run() vs an independent shadow accounting of step()) + online trace predicate over the run-loop observer hook's events",
    level="Exploration with exhaustive boundaries: for every limit in a 10-value set and every cap in an 8-value set, programs that need n steps for every n in L-2..L+3 and steps that grow the state by g for every g in cap-2..cap+3, plus diverging, doubling and random RAND-free programs; outcome, executed step count (from the hook) and final state are compared with the shadow; every hook event is checked (counter +1, size_before = size after previous event, no step after cap exceeded, End consistent); programs laid out as one list and item by item (growth on the very last step), initial states with CODE equal to EXEC, budgets up to 2^17 and i32::MAX, caps up to usize::MAX; time-limit cases with a sleeping harness instruction under limits of 20 ms and of about one second; empty-EXEC steps from arbitrary states.",
    note="Uses the verif hook (run-loop observer). The statement's tolerance (StepLimit after L or L+1 steps) is built into the oracle. Time is judged only through a sleep that can only overshoot.",
)
TEXT["C07"] = dict(
    technique="runtime monitoring: differential step monitor over define/use/quote programs + independent environment model (map + quote flag) checked after every step",
    level="Exploration: thousands of random interleavings of define (8 types) / use / quote / redefine / CODE.DEFINITION over three names from empty and random states; after every interpreter step the complete state (all stacks, name_bindings, quote flag) is compared with the reference rules, and each name use is judged by the environment model; values include name chains, print twins and binding tables of up to 5100 names.",
    note="Reference rules for the identifier step and DEFINE family are trusted (dmon.rs::plain_step_expect, refm.rs).",
)
TEXT["C11"] = dict(
    technique="runtime monitoring: round-trip monitor (print -> parse -> compare / print again) over generated trees and all three print paths",
    level="Exploration: tens of thousands of random trees (one in 24 wrapped into 20..4200 levels of nesting) over lists, ints (incl. MIN/MAX), booleans, parser-producible names incl. ones starting with invisible characters, all 280 instruction names plus user-registered ones (also registered after a first parse), and floats incl. non-finite / -0.0 / third-decimal rounding cases; every tree goes through Item::to_string, PushStack::to_string (several items) and CODE.PRINT; trees from pushr's own generator are round-tripped too.",
    note="Vector literals inside code are outside the statement (they print without their type prefix) and are not generated.",
)
TEXT["C12"] = dict(
    technique="runtime monitoring: predicate monitors over many draws of the unseedable generators (size, leaf membership, bounds), follow-up execution and round trip of generated programs",
    level="Exhaustive over the parameter grid (every n in 1..80, every bound in 0..40, every k in 1..60, 10 instruction lists incl. random sublists of the registry x 4 binding tables x 3 name probabilities, interpreter flags and stack contents drawn per case, int-pool operands x 6 maxima for CODE.RAND) with D draws per setting; million-point programs (2^21, 2^22 points) with the size counted on the item; a rare-event budget of 4x10^8 (4x10^9 thorough) draws of the cheapest generator step; predicates, not equalities.",
    note="thread_rng cannot be seeded; a defect that shows with probability p per draw is caught with probability 1-(1-p)^D.",
)
TEXT["C13"] = dict(
    technique="runtime monitoring: predicate + statistical monitors (bounds, lengths, TRUE-count, rejection of invalid parameters, per-position reachability with stated false-alarm bound) over the generator API and the RAND instructions",
    level="Exhaustive over the parameter grid with D draws per setting (incl. million-bit vectors at sparsity 0.5, intervals narrower than the printing grid, bound names with blanks and a NAME stack related to the bindings); reachability of every position judged only when the number of draws makes P(false alarm) <= 1e-12.",
    note="thread_rng cannot be seeded. The TRUE count is judged by the exact documented computation (minority share to two decimals; an integral product met exactly, a fractional one by a neighbouring integer).",
)
TEXT["C14"] = dict(
    technique="runtime monitoring: pair-of-executions digest comparison (repeat, 1..16 concurrent threads, debug vs release, CLI vs library), offline uniqueness check of the node-id event log, ThreadSanitizer and Miri (thorough)",
    level="Exploration: hundreds (thousands thorough) of RAND-free id-free programs compared across repeats, thread counts and build profiles; 800000 (millions thorough) node ids from up to 16 racing threads checked pairwise distinct; every deterministic instruction on boundary operands compared between the build profiles; aged vs fresh states; the front end run among decoy files and on programs of about 1000 steps; thorough adds a walk of the node-id space past 2^32 (4.3x10^9 creations on 16 threads) and runs the concurrent workload under TSan (3 runs) and Miri (8 scheduler seeds, deterministic floats). Not an enumeration of interleavings.",
    note="Programs that leave the resource envelope are skipped (counted). The CLI is compared on terminating programs only (it has no step limit).",
)
TEXT["C19"] = dict(
    technique="runtime monitoring: differential step monitor + conservation ledger (tagged multiset before = after) + multi-step round-trip monitor (ADD -> GET -> execute)",
    level="Exploration: stack-id vectors over all valid and invalid ids with repeats, unique values on every typed stack, record positions and n over {MIN,-1,0..size+1,MAX}; every LIST.* step compared with the reference; ADD additionally by an independent conservation ledger; the round trip must restore every stack exactly.",
    note="LIST.SET on an empty CODE stack addresses no record and is not judged (outside the statement).",
)
TEXT["C15"] = dict(
    technique="runtime monitoring: resource monitor (counting/capping global allocator, process CPU clock with in-process watchdog, supervised worker processes mapping aborts and hangs to the running case)",
    level="Exhaustive over (135 instructions with INTEGER/FLOAT operands x operand positions x 9 integer / 6 float probe values x 2 settings of the remaining operands), one supervised step per case on a tiny state; INDEX-stack bounds, vector element magnitudes and spreads, and process-assigned node ids far apart are probed the same way; every instruction is also applied 60 times in a row to one evolving state; plus 10 growth programs under the default limits. The property is violated today in 34 recorded ways (no resource policy; max_points_in_program unused) - those are listed as known findings by exact (instruction, operand position:class, resource) signature; any other pair is a fresh violation.",
    note="Bound per step: 1 MiB + 64 x state bytes + 64 x configured limits; hang = more than 3 (10) CPU-seconds in one step. Thresholds are 3+ orders of magnitude above normal cost, independent of machine load.",
)
