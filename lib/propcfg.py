"""Per-property job plans, evidence rules, observation floors and post-processing for ./check."""

N_REGISTERED = 280


def shards(profile, n, mode=None, **kw):
    d = dict(profile=profile, nshards=n, mode=mode)
    d.update(kw)
    return d


def both(n, mode=None, **kw):
    return [shards("debug", n, mode, **kw), shards("release", n, mode, **kw)]


def set_n(agg, name):
    return len(agg.sets.get(name, ()))


# ---------------------------------------------------------------------------------------------
def c04_post(c):
    """debug vs release: per-instruction digests of all post-states must agree shard by shard."""
    agg = c["agg"]
    pairs = 0
    for key, per_worker in agg.notes.items():
        if not key.startswith("dig|"):
            continue
        vals = {}
        for tag, v in per_worker.items():
            vals.setdefault(tag.split("-")[0], set()).add(v)
        if "debug" in vals and "release" in vals:
            pairs += 1
            if vals["debug"] != vals["release"]:
                name = key.split("|")[1]
                agg.add_violation(c["prop"], "%s|profile-dependent" % name,
                                  "post-state digests of %s differ between the debug and the release build (%s): %s vs %s" % (name, key, sorted(vals["debug"]), sorted(vals["release"])))
    c["extra"]["profile_pairs_compared"] = pairs


def digest_compare(c):
    """debug vs release: digests logged under note keys dig|... must agree shard by shard."""
    agg = c["agg"]
    pairs = 0
    for key, per_worker in agg.notes.items():
        if not key.startswith("dig|"):
            continue
        vals = {}
        for tag, v in per_worker.items():
            vals.setdefault(tag.split("-")[0], set()).add(v)
        if "debug" in vals and "release" in vals:
            pairs += 1
            if vals["debug"] != vals["release"]:
                agg.add_violation(c["prop"], "%s|profile-dependent" % key.split("|")[1].rstrip("0123456789"),
                                  "final-state digests differ between the debug and the release build (%s): %s vs %s" % (key, sorted(vals["debug"]), sorted(vals["release"])))
    c["extra"]["profile_pairs_compared"] = pairs


def miri_pre(c, many_seeds=0, timeout=3400):
    """thorough only: run this property's `--mode miri` workload under the undefined-behaviour interpreter."""
    import os, subprocess, time
    if c["tier"] != "thorough":
        c["extra"].setdefault("sanitizers", "Miri run only in the thorough tier (minutes)")
        return
    H = os.path.join(c["root"], "harness")
    t0 = time.time()
    flags = "-Zmiri-disable-isolation" + (" -Zmiri-many-seeds=0..%d" % many_seeds if many_seeds else "")
    logf = os.path.join(c["wdir"], "miri.jsonl")
    env = dict(c["cargo_env"], MIRIFLAGS=flags, CARGO_TARGET_DIR=os.path.join(H, "target-miri"))
    try:
        p = subprocess.run(["cargo", "+nightly", "miri", "run", "--offline", "--bin", "pvmon", "--", c["prop"], "--mode", "miri", "--seed", str(c["seed"]), "--log", logf, "--cap-mb", "4096"],
                           cwd=H, env=env, stdout=subprocess.PIPE, stderr=subprocess.STDOUT, text=True, timeout=timeout)
    except subprocess.TimeoutExpired:
        c["agg"].inconclusive.append("miri run exceeded %d s" % timeout)
        c["extra"]["sanitizers"] = {"miri": "timed out (inconclusive)"}
        return
    c["agg"].feed(logf, "miri")
    out = p.stdout
    res = {"flags": flags, "wall_s": round(time.time() - t0, 1)}
    if "Undefined Behavior" in out or "data race" in out.lower():
        c["agg"].add_violation(c["prop"], "miri|undefined-behaviour-or-race", out[out.find("error"):][:1500])
        res["result"] = "reported a problem"
    elif p.returncode != 0:
        c["agg"].inconclusive.append("miri run exited %d: %s" % (p.returncode, out[-500:]))
        res["result"] = "did not complete (inconclusive)"
    else:
        res["result"] = "clean"
    san = c["extra"].get("sanitizers")
    if not isinstance(san, dict):
        san = {}
    san["miri"] = res
    c["extra"]["sanitizers"] = san


def c14_pre(c):
    """thorough: build the harness under ThreadSanitizer, run the concurrent workload under it and under Miri."""
    import os, subprocess, time
    if c["tier"] != "thorough":
        c["extra"]["sanitizers"] = "not run in the quick tier (TSan/Miri builds take minutes); see thorough"
        return
    H = os.path.join(c["root"], "harness")
    env = dict(c["cargo_env"])
    san = {}
    # ---- ThreadSanitizer --------------------------------------------------------------------
    t0 = time.time()
    envt = dict(env, RUSTFLAGS="-Zsanitizer=thread", CARGO_TARGET_DIR=os.path.join(H, "target-tsan"))
    p = subprocess.run(["cargo", "+nightly", "build", "--offline", "--release", "-Zbuild-std", "--target", "x86_64-unknown-linux-gnu"], cwd=H, env=envt,
                       stdout=subprocess.PIPE, stderr=subprocess.STDOUT, text=True)
    if p.returncode != 0:
        c["agg"].inconclusive.append("TSan build failed: " + p.stdout[-400:])
        san["tsan"] = "build failed"
    else:
        binp = os.path.join(H, "target-tsan", "x86_64-unknown-linux-gnu", "release", "pvmon")
        reports = 0
        runs = 0
        for rep in range(3):
            logf = os.path.join(c["wdir"], "tsan-%d.jsonl" % rep)
            errf = os.path.join(c["wdir"], "tsan-%d.stderr" % rep)
            with open(errf, "wb") as eh:
                r = subprocess.run([binp, "C14", "--tier", "thorough", "--seed", str(c["seed"] + rep), "--mode", "tsan", "--log", logf, "--cap-mb", "4096"],
                                   cwd=c["root"], env=dict(os.environ, TSAN_OPTIONS="halt_on_error=0 exitcode=66 second_deadlock_stack=1"), stdout=eh, stderr=eh, timeout=3000)
            runs += 1
            c["agg"].feed(logf, "tsan-%d" % rep)
            txt = open(errf, "r", errors="replace").read()
            n = txt.count("WARNING: ThreadSanitizer")
            reports += n
            if n or r.returncode == 66:
                # signature: first frame inside pushr / the harness
                frame = "?"
                for line in txt.splitlines():
                    if "#" in line and ("pushr::" in line or "pvmon::" in line):
                        frame = line.split(" in ")[-1].split(" ")[0][:80]
                        break
                c["agg"].add_violation(c["prop"], "tsan|data-race|%s" % frame, "ThreadSanitizer reported %d problem(s): %s" % (n, txt[txt.find("WARNING: ThreadSanitizer"):][:1500]))
            elif r.returncode != 0:
                c["agg"].inconclusive.append("TSan run exited %d: %s" % (r.returncode, txt[-300:]))
        san["tsan"] = {"runs": runs, "reports": reports, "build_s": round(time.time() - t0, 1)}
    # ---- Miri -------------------------------------------------------------------------------
    t0 = time.time()
    seeds = 8
    logf = os.path.join(c["wdir"], "miri.jsonl")
    # -Zmiri-deterministic-floats: Miri otherwise adds a RANDOM rounding error to sin/cos/powf/... and picks random NaN
    # payloads (modelling what Rust leaves unspecified across platforms); on one host these are fixed, and the digest
    # comparison of this workload is about scheduling, not about libm precision
    envm = dict(env, MIRIFLAGS="-Zmiri-disable-isolation -Zmiri-deterministic-floats -Zmiri-many-seeds=0..%d" % seeds, CARGO_TARGET_DIR=os.path.join(H, "target-miri"))
    p = subprocess.run(["cargo", "+nightly", "miri", "run", "--offline", "--bin", "pvmon", "--", "C14", "--mode", "miri", "--seed", str(c["seed"]), "--log", logf, "--cap-mb", "4096"],
                       cwd=H, env=envm, stdout=subprocess.PIPE, stderr=subprocess.STDOUT, text=True, timeout=3400)
    c["agg"].feed(logf, "miri")
    out = p.stdout
    if "Undefined Behavior" in out or "data race" in out.lower():
        c["agg"].add_violation(c["prop"], "miri|undefined-behaviour-or-race", out[out.find("error"):][:1500])
        san["miri"] = {"seeds": seeds, "result": "reported a problem"}
    elif p.returncode != 0:
        c["agg"].inconclusive.append("miri run exited %d: %s" % (p.returncode, out[-500:]))
        san["miri"] = {"seeds": seeds, "result": "did not complete (inconclusive)"}
    else:
        san["miri"] = {"seeds": seeds, "result": "clean", "wall_s": round(time.time() - t0, 1)}
    c["extra"]["sanitizers"] = san


def c14_post(c):
    import json, os, subprocess
    digest_compare(c)
    agg = c["agg"]
    # CLI front end vs library
    cases = []
    for key, per_worker in agg.notes.items():
        if key.startswith("cli|"):
            for tag, v in per_worker.items():
                if tag.startswith("release"):
                    cases.append(json.loads(v))
    if not cases:
        return
    tdir = os.path.join(c["root"], "harness", "target", "cli")
    p = subprocess.run(["cargo", "build", "--offline", "--quiet", "--manifest-path", "/repo/Cargo.toml", "--bin", "pushr", "--target-dir", tdir],
                       env=dict(os.environ, CARGO_NET_OFFLINE="true"), stdout=subprocess.PIPE, stderr=subprocess.STDOUT, text=True)
    if p.returncode != 0:
        agg.inconclusive.append("could not build the pushr binary: " + p.stdout[-300:])
        return
    binp = os.path.join(tdir, "debug", "pushr")
    compared = 0
    # hostile environment: the front end runs in a directory that holds, for every program, a FILE whose name is exactly
    # the program text (with other code in it): the argument is program text, never a path, whatever the surroundings
    envdir = os.path.join(c["wdir"], "cli-env")
    os.makedirs(envdir, exist_ok=True)
    decoys = 0
    for cs in cases:
        t = cs["text"]
        if "/" not in t and "\0" not in t and 0 < len(t.encode()) <= 200 and t not in (".", ".."):
            try:
                with open(os.path.join(envdir, t), "w") as f:
                    f.write("( 424242 424242 )")
                decoys += 1
            except OSError:
                pass
    c["extra"]["cli_decoy_files"] = decoys
    for cs in cases:
        try:
            r = subprocess.run([binp, cs["text"]], cwd=envdir, stdout=subprocess.PIPE, stderr=subprocess.STDOUT, text=True, timeout=60)
        except subprocess.TimeoutExpired:
            agg.add_violation(c["prop"], "cli|does-not-terminate", "the front end did not finish a program the library finishes: %s" % cs["text"][:300])
            continue
        out = r.stdout
        if r.returncode != 0 or "Done." not in out:
            agg.add_violation(c["prop"], "cli|crash", "front end exit %d on %s : %s" % (r.returncode, cs["text"][:300], out[-300:]))
            continue
        blocks = out.split("> ------------ ")
        last = [b for b in blocks if "> EXEC  :" in b][-1]
        got = {}
        for line in last.splitlines():
            for k, lab in (("exec", "> EXEC  : "), ("code", "> CODE  : "), ("int", "> INT   : ")):
                if line.startswith(lab.rstrip()) :
                    got[k] = line[len(lab):].strip() if len(line) >= len(lab) else ""
        compared += 1
        agg.counts["cli_cases_compared"] = agg.counts.get("cli_cases_compared", 0) + 1
        if got.get("exec", "") != "" or got.get("code") != cs["code"].strip() or got.get("int") != cs["int"].strip():
            agg.add_violation(c["prop"], "cli|final-stacks-differ", "program %s : front end EXEC=%r CODE=%r INT=%r ; library CODE=%r INT=%r" % (
                cs["text"][:300], got.get("exec"), got.get("code"), got.get("int"), cs["code"], cs["int"]))
    c["extra"]["cli_cases_compared"] = compared


PROPS = {
    "C01": dict(
        fuzz=dict(seconds=150),
        pre=miri_pre,
        jobs=lambda tier: both(8, None, stall_s=40, wall_s=900 if tier == "quick" else 7200),
        eval_keys=["steps"],
        rule="(a) every registered instruction single-stepped on K generated states (boundary / small / mixed operand pools, random "
             "bystanders, INPUT messages, graphs, bindings, random configurations); (b) programs from the harness grammar over the full "
             "registry and (c) programs from pushr's own random_code_with_size, half single-stepped, half through run(); every part in "
             "the debug and the release build. A case is distinct by (instruction, operand-class vector: sign/extreme class of the two top "
             "ints and floats, depths of B/C/E/X, top vector lengths, graph present).",
        supervisor_policy={"alloc_cap": "envelope"},
        floors={
            "all registered instructions swept": lambda a, t: set_n(a, "instructions") >= N_REGISTERED,
            "programs executed": lambda a, t: a.counts.get("programs", 0) >= 1000,
        },
        assumptions=["EXEC.CMD replaced by a harmless stub (statement's envelope)",
                     "size-like operands above 5000 (70 000 for LIST.NEIGHBOR*, whose cost is linear) and heaps above 96 MiB are outside the envelope and counted, not judged"],
    ),
    "C02": dict(
        fuzz=dict(seconds=120),
        jobs=lambda tier: both(6, None, stall_s=90),
        eval_keys=["runs", "empty_exec_steps"],
        rule="RAND-free programs: families terminating in exactly n steps for every n in L-2..L+3, diverging programs (EXEC.Y, a name bound "
             "to itself, a million-iteration loop), programs whose single step grows the state by exactly g items for every g in cap-2..cap+3 "
             "(list unpacking, LIST.GET of wide records), doubling programs, random programs over the RAND-free registry; eval_push_limit in "
             "{-1,0,1,2,3,5,10,17,40,100}, growth_cap in {0,1,2,3,5,8,20,500}; run() is compared with an independent shadow accounting of step() "
             "(outcome, number of steps from the run-loop hook, final state), the hook's event stream is checked online; TimeLimit cases use a "
             "20 ms limit and a harness instruction that sleeps 300 ms. distinct = (family, limit, cap, needed-limit, growth-limit, outcome).",
        floors={"all four outcomes observed": lambda a, t: set_n(a, "outcomes") >= 4, "hook events": lambda a, t: a.counts.get("hook_events", 0) >= 10000},
        assumptions=["shadow accounting uses the same step() function (the property is about the loop around it)"],
    ),
    "C03": dict(
        fuzz=dict(seconds=120),
        jobs=lambda tier: both(6),
        eval_keys=["strings"],
        note_keys=["exhaustive_space"],
        rule="(a) ALL token sequences of length <= 5 (7 thorough) over {( ) 1 x INT[1,2] INT[ BOOL[q] FLOAT[]}; (b) hostile random strings "
             "(token soup, unbalanced parens, raw UTF-8, dangerous vector-literal prefixes with multi-byte tails, 10^4-byte tokens, deep nesting, "
             "Unicode whitespace); (c) random balanced token trees over all atom kinds rendered with random whitespace, EXEC compared "
             "structurally with an independent classification/tree builder; other stacks must not change. distinct = token-shape class.",
        floors={"trees compared": lambda a, t: a.counts.get("trees_compared", 0) >= 10000},
        assumptions=["integers and floats inside literals are 'well formed' iff Rust's i32/f32 from_str accepts them (the only lexical definition there is)",
                     "a vector literal with an empty payload may be dropped or yield an empty vector (documentation silent)"],
    ),
    "C04": dict(
        fuzz=dict(seconds=120),
        jobs=lambda tier: both(4),
        post=c04_post,
        rule="each of the 41 scalar/conversion instructions on all 256 pairs of the 16-value int and float boundary pools plus random "
             "pairs, on top of random deeper stacks and bystanders; distinct = (instruction, operand class pair).",
        floors={"all 41 instructions": lambda a, t: set_n(a, "instructions") >= 41},
        assumptions=["reference semantics transcribed from doc comments (SPEC-instructions.md)"],
    ),
    "C05": dict(
        fuzz=dict(seconds=90),
        jobs=lambda tier: both(4),
        exhaustive=True,
        note_keys=["grid_size"],
        rule="exhaustive grid: 9 stack types x {DUP DDUP POP SWAP ROT YANK YANKDUP SHOVE FLUSH STACKDEPTH} x depths 0..7 (10 thorough) x "
             "indices {MIN,-2,-1,0..depth+2,MAX} x one-hot BOOLEAN families x bystander variants; distinct = (name, depth, index, hot).",
        floors={"79 instructions": lambda a, t: set_n(a, "instructions") >= 79},
    ),
    "C06": dict(
        fuzz=dict(seconds=120),
        jobs=lambda tier: both(6, None, stall_s=60),
        eval_keys=["steps"],
        rule="(1) 18 control/index combinators and list/literal/name steps on random EXEC/CODE/INDEX contents, each step compared with the "
             "documented unfolding rule; (2) loop programs ( n INDEX.DEFINE EXEC.LOOP B ), ( CODE.QUOTE B n INDEX.DEFINE CODE.LOOP ), "
             "( INT[v] INTVECTOR.LOOP B ) for every n in -1..6 (12 thorough) and generated bodies with probes, conditionals and loops nested "
             "to depth 3; a harness-registered VERIF.PROBE logs (INDEX stack, top INTEGER) and the trace is compared with the documented "
             "iteration sequence, plus: nothing left on INDEX/INTVECTOR/CODE/EXEC; (3) random programs over the control alphabet with every "
             "step judged. distinct = (combinator, stack-depth class, fired) / (loop nesting shape, trace length).",
        floors={"18 combinators": lambda a, t: set_n(a, "instructions") >= 18, "probe events": lambda a, t: a.counts.get("probe_events_checked", 0) >= 5000},
    ),
    "C07": dict(
        fuzz=dict(seconds=90),
        jobs=lambda tier: both(6),
        eval_keys=["steps"],
        rule="random interleavings (3..16 events) over names a,b,c of: define a value of each of the 8 types (value, NAME.QUOTE name, T.DEFINE; "
             "EXEC.DEFINE / CODE.DEFINE forms), bare use, NAME.QUOTE (with other steps in between) then use, redefinition with another type, "
             "CODE.DEFINITION, unquoted definition; from empty / random states with and without initial bindings and a set quote flag. After "
             "EVERY step the whole state is compared with the reference rules and an independent environment model. "
             "distinct = (event kind, type, bound/unbound/quoted).",
        floors={"sequences": lambda a, t: a.counts.get("sequences", 0) >= 2000},
    ),
    "C08": dict(
        fuzz=dict(seconds=120),
        jobs=lambda tier: both(6),
        eval_keys=["steps", "api_relations", "relations"],
        rule="random code trees t (<= 14 points, depth <= 4, every atom kind, floats on a 1/8 grid) with a planted sub-item / near miss u and "
             "a substitute w; every CODE list-surgery instruction on (t,u,w) with indices in [-2S,2S] + {MIN,MAX}; Item::size/traverse/insert/"
             "contains/container/substitute/equals checked at every point of t; follow-up relations INSERT->EXTRACT, POSITION->EXTRACT, "
             "DISCREPANCY symmetry; distinct = (op, index class, depth, size, operands equal?).",
        floors={"19 instructions": lambda a, t: set_n(a, "instructions") >= 19},
    ),
    "C09": dict(
        fuzz=dict(seconds=120),
        jobs=lambda tier: both(8, None, stall_s=40),
        rule="overlap family: all length pairs 0..4 x 0..4 (0..6 thorough) x offsets [-len-2, len+2] + {MIN, MIN+1, MAX-1, MAX} x value "
             "draws; every other vector instruction: lengths 0..4 x integer operand {MIN,-1,0..len+1,MAX}; distinct = (name, lengths, operand class).",
        floors={"vector instructions": lambda a, t: set_n(a, "instructions") >= 88},
        supervisor_policy={},
    ),
    "C10": dict(
        fuzz=dict(seconds=120),
        jobs=lambda tier: [shards("release", 8, None, stall_s=40)],
        exhaustive=True,
        note_keys=["patterns"],
        rule="for every registered instruction, every vector of operand-stack depths in prod(0..=need) (exhaustive), x bystander "
             "variations incl. guard-failing operand values; distinct = (name, depth pattern, fired?).",
        floors={"all registered instructions": lambda a, t: set_n(a, "instructions") >= N_REGISTERED},
    ),
    "C16": dict(
        fuzz=dict(seconds=90),
        pre=miri_pre,
        jobs=lambda tier: [shards("release", 12), shards("debug", 4 if tier == "quick" else 10)],
        eval_keys=["ops"],
        exhaustive=True,
        note_keys=["exhaustive_space"],
        rule="ALL histories of length <= 3 (4 thorough) over 79 operation instances of the whole public PushStack API (positions 0..5) from "
             "the empty and from a 3-element stack, plus random histories of length 300; element types i32 (unique values) and nested Items; "
             "after every operation the return value, the full contents and the printed form are compared with a Vec model. "
             "distinct = (type, op, position class in/=len/beyond, length).",
        floors={"histories": lambda a, t: a.counts.get("histories", 0) >= 100000},
    ),
    "C17": dict(
        fuzz=dict(seconds=90),
        pre=miri_pre,
        jobs=lambda tier: [shards("release", 8), shards("debug", 4)],
        eval_keys=["ops", "io_steps"],
        exhaustive=True,
        note_keys=["exhaustive_space"],
        rule="ALL histories of length <= 6 (8 thorough) over {push, push_force, pop, flush} for capacities 1..5 and both buffer kinds, plus "
             "random histories of 3000+ operations on capacities up to 100; after every operation every read operation (get/copy/get_mut at "
             "0..cap+1, oldest/newest, iteration, sizes, printing) is compared with a bounded-sequence model and the cursor invariant is read "
             "through the verif hook; INPUT.*/OUTPUT.* instruction sequences against a FIFO model. distinct = (kind, capacity, cursor state, op).",
        floors={"histories": lambda a, t: a.counts.get("histories", 0) >= 10000, "8 io instructions": lambda a, t: set_n(a, "instructions") >= 8},
    ),
    "C18": dict(
        fuzz=dict(seconds=120),
        jobs=lambda tier: [shards("release", 12), shards("debug", 4 if tier == "quick" else 10)],
        eval_keys=["api_ops", "instr_steps"],
        exhaustive=True,
        note_keys=["exhaustive_space"],
        rule="ALL Graph API histories of length <= 3 (4 thorough) over add/remove node, add/remove edge, set state/weight, clone on 3 node "
             "slots + a never-issued id (after two initial nodes), random histories of 200 ops on 12 slots with stale ids; after every op the "
             "pub maps, all getters, filter, sizes, every snapshot and diff are compared with a set model; GRAPH.* instruction histories with "
             "valid/stale/bogus ids and history depths, judged by the reference model. distinct = (op, id class, graph size class).",
        floors={"19 graph instructions": lambda a, t: set_n(a, "instructions") >= 19, "histories": lambda a, t: a.counts.get("histories", 0) >= 5000},
    ),
    "C20": dict(
        fuzz=dict(seconds=90),
        jobs=lambda tier: [shards("release", 16)],
        eval_keys=["neighbourhoods", "decompositions", "instr_steps"],
        exhaustive=True,
        note_keys=["grid_size"],
        rule="EVERY (ntotal 1..130, ndim 1..4, index, radius in 11 values incl. 0 and values between lattice distances) (thorough: ntotal to "
             "1100 with all perfect powers, ndim to 6) against an integer brute-force oracle (points within 1e-5 of the radius are don't-cares); "
             "symmetry over all pairs, monotonicity, centre, order; decompose_index bijection on every hypercube up to 20000 cells; "
             "LIST.NEIGHBOR* with clamped / hostile operands. distinct = (ntotal, ndim, radius, perfect-power?).",
        floors={"4 instructions": lambda a, t: set_n(a, "instructions") >= 4},
    ),
    "C19": dict(
        fuzz=dict(seconds=90),
        jobs=lambda tier: both(6),
        eval_keys=["steps"],
        rule="stack-id vectors of length 0..8 over the 9 valid ids plus {0,7,8,12,13,-1,MAX} with repeats, typed stacks with unique values "
             "(some empty); LIST.ADD judged by the reference and by a conservation ledger (tagged multiset before = stacks + record after); "
             "ADD -> (other records on top) -> GET -> execute round trip restoring every stack in order; SET/REMOVE/BVAL/IVAL/FVAL with "
             "positions {MIN,-1,0..size+1,MAX}, n in {-1,0..5,MAX}, nested records and atoms. distinct = (op, id-pattern / position / n class).",
        floors={"7 instructions": lambda a, t: set_n(a, "instructions") >= 7, "round trips": lambda a, t: a.counts.get("round_trips", 0) >= 500},
    ),
    "C11": dict(
        fuzz=dict(seconds=90),
        jobs=lambda tier: both(6 if tier == "quick" else 8),
        eval_keys=["round_trips"],
        rule="random trees (depth <= 4, <= 4 items per stack) over lists (incl. empty), ints (incl. MIN/MAX), booleans, parser-producible "
             "names, every registered instruction name, and - in a third of the cases - floats incl. non-finite, -0.0, values that round at the "
             "third decimal; all three print paths (Item::to_string, PushStack::to_string, CODE.PRINT); plus trees from pushr's "
             "random_code_with_size. Float-free: structural equality after parsing; always: print-parse-print fixpoint. "
             "distinct = (floats?, depth, size class, items).",
        floors={"round trips": lambda a, t: a.counts.get("round_trips", 0) >= 20000, "generated trees": lambda a, t: a.counts.get("generated_trees", 0) >= 1000},
    ),
    "C12": dict(
        jobs=lambda tier: both(8, None, stall_s=90, cap_mb=2048),
        eval_keys=["draws"],
        rule="random_code_with_size(n) for EVERY n in 1..80 and 235, 1034 x instruction lists {empty, one, full registry} x binding tables "
             "{none, one, three} x new-name probability {0, 0.001, 1}, D draws each: exact size, leaf kinds and membership; first draws are also "
             "executed (run) and print-parse-printed; random_code(m) for every m in 0..40; CODE.RAND over the int pool x 6 configured maxima; "
             "decompose(k) for k in 1..60. distinct = parameter setting.",
        floors={"draws": lambda a, t: a.counts.get("draws", 0) >= 20000},
        assumptions=["pushr's generators use thread_rng and cannot be seeded: oracles are predicates over many draws, never equalities"],
    ),
    "C13": dict(
        jobs=lambda tier: both(8, None, stall_s=60),
        eval_keys=["draws"],
        rule="grid x D draws: random_bool_vector sizes 0..12,40,100,-1,-5,MIN x 13 sparsities (grid of [0,1] plus -0.1, 1.1, NaN, +-inf); "
             "random_int_vector 8 sizes x 10 (min,max) pairs incl. equal, reversed, extreme; random_float_vector sizes x 9 deviations "
             "(0, negative, NaN, inf) x 5 means; INTEGER.RAND / FLOAT.RAND under 90 configured bound pairs; the RAND instructions with operands "
             "in documented order; NAME.RANDBOUNDNAME with 0..3 bindings. Per-position reachability of TRUE bits with enough draws that "
             "P(false alarm) <= 1e-12 per check. distinct = parameter setting.",
        floors={"draws": lambda a, t: a.counts.get("draws", 0) >= 50000, "reachability checks": lambda a, t: a.counts.get("reachability_checks", 0) >= 20},
        assumptions=["statistical reachability check: false-alarm probability <= 1e-12 per (size, sparsity) setting by construction of the number of draws"],
    ),
    "C14": dict(
        jobs=lambda tier: both(4, None, stall_s=240, wall_s=3000, cap_mb=4096),
        pre=c14_pre,
        post=c14_post,
        eval_keys=["runs"],
        rule="RAND-free programs that expose no node ids (grammar over the registry minus *.RAND, NAME.RAND*, GRAPH queries/printing) on "
             "random states: (a) run twice in one process with unrelated runs and node creations in between, (b) every case on 2, 8, 16 "
             "(thorough: 1..16) threads at once behind a barrier, each with its own state and instruction set, (c) per-block digests of the "
             "debug and release builds compared, (d) node ids from Graph::add_node and GRAPH.NODE*ADD on up to 16 threads x 10^5 creations: "
             "pairwise distinct, increasing per thread, (e) the pushr binary built from /repo vs the library on terminating programs. "
             "thorough adds ThreadSanitizer (3 runs) and Miri (8 scheduler seeds) over (b),(d). distinct = case / thread count / id round.",
        floors={"node ids": lambda a, t: a.counts.get("node_ids_observed", 0) >= 50000, "concurrent comparisons": lambda a, t: a.counts.get("concurrent_comparisons", 0) >= 2000,
                "cli cases": lambda a, t: a.counts.get("cli_cases_compared", 0) >= 20},
        assumptions=["'for all interleavings' is approached by stress, scheduler seeds and race detectors, not enumerated"],
    ),
    "C15": dict(
        jobs=lambda tier: [shards("release", 12, None, stall_s=60, cap_mb=320), shards("debug", 12, None, stall_s=60, cap_mb=320)],
        # an abort by the allocation cap is the same finding as an in-process "mem" verdict, a watchdog /
        # stall kill the same as an in-process "time" verdict: one signature per (instruction, operand class, resource)
        supervisor_signature=lambda kind, who: "%s|%s" % (who, {"alloc_cap": "mem", "hang": "time"}.get(kind, kind)),
        eval_keys=["steps"],
        rule="every registered instruction that takes an INTEGER or FLOAT operand x each operand position x integer probes "
             "{-MAX,-10^6,-1,0,1,10^3,10^6,10^9,MAX} / float probes {+-1e30,+-inf,NaN,0.5} x 2 settings of the other operands, on a tiny state, one "
             "supervised step per case: bytes requested in the step vs the bound 1 MiB + 64 x state bytes + 64 x configured limits, CPU time of "
             "the step (in-process watchdog: 3 s quick / 10 s thorough), abort by the 320 MiB allocation cap; 10 growth programs run under the "
             "default configuration, after which no CODE/EXEC item may exceed max_points_in_program. distinct = (instruction, operand position:class, setting).",
        floors={"instructions with size-like operands": lambda a, t: set_n(a, "instructions") >= 130, "steps": lambda a, t: a.counts.get("steps", 0) >= 2500},
        assumptions=["CPU time, never wall-clock, decides a hang", "allocation accounting by the harness's counting global allocator"],
    ),
}
