"""Per-property job plans, evidence rules, observation floors and post-processing for ./check."""

N_REGISTERED = 280


def shards(profile, n, mode=None, **kw):
    d = dict(profile=profile, nshards=n, mode=mode)
    d.update(kw)
    return d


def both(n, mode=None, **kw):
    return [shards("debug", n, mode, **kw), shards("release", n, mode, **kw)]


def set_n(agg, name):
    return len(agg.sets.get(name, ()))


# ---------------------------------------------------------------------------------------------
def c04_post(c):
    """debug vs release: per-instruction digests of all post-states must agree shard by shard."""
    agg = c["agg"]
    pairs = 0
    for key, per_worker in agg.notes.items():
        if not key.startswith("dig|"):
            continue
        vals = {}
        for tag, v in per_worker.items():
            vals.setdefault(tag.split("-")[0], set()).add(v)
        if "debug" in vals and "release" in vals:
            pairs += 1
            if vals["debug"] != vals["release"]:
                name = key.split("|")[1]
                agg.add_violation(c["prop"], "%s|profile-dependent" % name,
                                  "post-state digests of %s differ between the debug and the release build (%s): %s vs %s" % (name, key, sorted(vals["debug"]), sorted(vals["release"])))
    c["extra"]["profile_pairs_compared"] = pairs


PROPS = {
    "C01": dict(
        jobs=lambda tier: both(8, None, stall_s=40, wall_s=900 if tier == "quick" else 7200),
        eval_keys=["steps"],
        rule="(a) every registered instruction single-stepped on K generated states (boundary / small / mixed operand pools, random "
             "bystanders, INPUT messages, graphs, bindings, random configurations); (b) programs from the harness grammar over the full "
             "registry and (c) programs from pushr's own random_code_with_size, half single-stepped, half through run(); every part in "
             "the debug and the release build. A case is distinct by (instruction, operand-class vector: sign/extreme class of the two top "
             "ints and floats, depths of B/C/E/X, top vector lengths, graph present).",
        supervisor_policy={"alloc_cap": "envelope"},
        floors={
            "all registered instructions swept": lambda a, t: set_n(a, "instructions") >= N_REGISTERED,
            "programs executed": lambda a, t: a.counts.get("programs", 0) >= 1000,
        },
        assumptions=["EXEC.CMD replaced by a harmless stub (statement's envelope)",
                     "size-like operands above 5000 (300 for LIST.NEIGHBOR*) and heaps above 96 MiB are outside the envelope and counted, not judged"],
    ),
    "C04": dict(
        jobs=lambda tier: both(4),
        post=c04_post,
        rule="each of the 41 scalar/conversion instructions on all 256 pairs of the 16-value int and float boundary pools plus random "
             "pairs, on top of random deeper stacks and bystanders; distinct = (instruction, operand class pair).",
        floors={"all 41 instructions": lambda a, t: set_n(a, "instructions") >= 41},
        assumptions=["reference semantics transcribed from doc comments (SPEC-instructions.md)"],
    ),
    "C05": dict(
        jobs=lambda tier: both(4),
        exhaustive=True,
        note_keys=["grid_size"],
        rule="exhaustive grid: 9 stack types x {DUP DDUP POP SWAP ROT YANK YANKDUP SHOVE FLUSH STACKDEPTH} x depths 0..7 (10 thorough) x "
             "indices {MIN,-2,-1,0..depth+2,MAX} x one-hot BOOLEAN families x bystander variants; distinct = (name, depth, index, hot).",
        floors={"79 instructions": lambda a, t: set_n(a, "instructions") >= 79},
    ),
    "C08": dict(
        jobs=lambda tier: both(6),
        eval_keys=["steps", "api_relations", "relations"],
        rule="random code trees t (<= 14 points, depth <= 4, every atom kind, floats on a 1/8 grid) with a planted sub-item / near miss u and "
             "a substitute w; every CODE list-surgery instruction on (t,u,w) with indices in [-2S,2S] + {MIN,MAX}; Item::size/traverse/insert/"
             "contains/container/substitute/equals checked at every point of t; follow-up relations INSERT->EXTRACT, POSITION->EXTRACT, "
             "DISCREPANCY symmetry; distinct = (op, index class, depth, size, operands equal?).",
        floors={"19 instructions": lambda a, t: set_n(a, "instructions") >= 19},
    ),
    "C09": dict(
        jobs=lambda tier: both(8, None, stall_s=40),
        rule="overlap family: all length pairs 0..4 x 0..4 (0..6 thorough) x offsets [-len-2, len+2] + {MIN, MIN+1, MAX-1, MAX} x value "
             "draws; every other vector instruction: lengths 0..4 x integer operand {MIN,-1,0..len+1,MAX}; distinct = (name, lengths, operand class).",
        floors={"vector instructions": lambda a, t: set_n(a, "instructions") >= 88},
        supervisor_policy={},
    ),
    "C10": dict(
        jobs=lambda tier: [shards("release", 8, None, stall_s=40)],
        exhaustive=True,
        note_keys=["patterns"],
        rule="for every registered instruction, every vector of operand-stack depths in prod(0..=need) (exhaustive), x bystander "
             "variations incl. guard-failing operand values; distinct = (name, depth pattern, fired?).",
        floors={"all registered instructions": lambda a, t: set_n(a, "instructions") >= N_REGISTERED},
    ),
}
