"""Per-property job plans, evidence rules, observation floors and post-processing for ./check."""

N_REGISTERED = 280


def shards(profile, n, mode=None, **kw):
    d = dict(profile=profile, nshards=n, mode=mode)
    d.update(kw)
    return d


def both(n, mode=None, **kw):
    return [shards("debug", n, mode, **kw), shards("release", n, mode, **kw)]


def set_n(agg, name):
    return len(agg.sets.get(name, ()))


# ---------------------------------------------------------------------------------------------
def c04_post(c):
    """debug vs release: per-instruction digests of all post-states must agree shard by shard."""
    agg = c["agg"]
    pairs = 0
    for key, per_worker in agg.notes.items():
        if not key.startswith("dig|"):
            continue
        vals = {}
        for tag, v in per_worker.items():
            vals.setdefault(tag.split("-")[0], set()).add(v)
        if "debug" in vals and "release" in vals:
            pairs += 1
            if vals["debug"] != vals["release"]:
                name = key.split("|")[1]
                agg.add_violation(c["prop"], "%s|profile-dependent" % name,
                                  "post-state digests of %s differ between the debug and the release build (%s): %s vs %s" % (name, key, sorted(vals["debug"]), sorted(vals["release"])))
    c["extra"]["profile_pairs_compared"] = pairs


PROPS = {
    "C01": dict(
        jobs=lambda tier: both(8, None, stall_s=40, wall_s=900 if tier == "quick" else 7200),
        eval_keys=["steps"],
        rule="(a) every registered instruction single-stepped on K generated states (boundary / small / mixed operand pools, random "
             "bystanders, INPUT messages, graphs, bindings, random configurations); (b) programs from the harness grammar over the full "
             "registry and (c) programs from pushr's own random_code_with_size, half single-stepped, half through run(); every part in "
             "the debug and the release build. A case is distinct by (instruction, operand-class vector: sign/extreme class of the two top "
             "ints and floats, depths of B/C/E/X, top vector lengths, graph present).",
        supervisor_policy={"alloc_cap": "envelope"},
        floors={
            "all registered instructions swept": lambda a, t: set_n(a, "instructions") >= N_REGISTERED,
            "programs executed": lambda a, t: a.counts.get("programs", 0) >= 1000,
        },
        assumptions=["EXEC.CMD replaced by a harmless stub (statement's envelope)",
                     "size-like operands above 5000 (300 for LIST.NEIGHBOR*) and heaps above 96 MiB are outside the envelope and counted, not judged"],
    ),
    "C03": dict(
        jobs=lambda tier: both(6),
        eval_keys=["strings"],
        note_keys=["exhaustive_space"],
        rule="(a) ALL token sequences of length <= 5 (7 thorough) over {( ) 1 x INT[1,2] INT[ BOOL[q] FLOAT[]}; (b) hostile random strings "
             "(token soup, unbalanced parens, raw UTF-8, dangerous vector-literal prefixes with multi-byte tails, 10^4-byte tokens, deep nesting, "
             "Unicode whitespace); (c) random balanced token trees over all atom kinds rendered with random whitespace, EXEC compared "
             "structurally with an independent classification/tree builder; other stacks must not change. distinct = token-shape class.",
        floors={"trees compared": lambda a, t: a.counts.get("trees_compared", 0) >= 10000},
        assumptions=["integers and floats inside literals are 'well formed' iff Rust's i32/f32 from_str accepts them (the only lexical definition there is)",
                     "a vector literal with an empty payload may be dropped or yield an empty vector (documentation silent)"],
    ),
    "C04": dict(
        jobs=lambda tier: both(4),
        post=c04_post,
        rule="each of the 41 scalar/conversion instructions on all 256 pairs of the 16-value int and float boundary pools plus random "
             "pairs, on top of random deeper stacks and bystanders; distinct = (instruction, operand class pair).",
        floors={"all 41 instructions": lambda a, t: set_n(a, "instructions") >= 41},
        assumptions=["reference semantics transcribed from doc comments (SPEC-instructions.md)"],
    ),
    "C05": dict(
        jobs=lambda tier: both(4),
        exhaustive=True,
        note_keys=["grid_size"],
        rule="exhaustive grid: 9 stack types x {DUP DDUP POP SWAP ROT YANK YANKDUP SHOVE FLUSH STACKDEPTH} x depths 0..7 (10 thorough) x "
             "indices {MIN,-2,-1,0..depth+2,MAX} x one-hot BOOLEAN families x bystander variants; distinct = (name, depth, index, hot).",
        floors={"79 instructions": lambda a, t: set_n(a, "instructions") >= 79},
    ),
    "C06": dict(
        jobs=lambda tier: both(6, None, stall_s=60),
        eval_keys=["steps"],
        rule="(1) 18 control/index combinators and list/literal/name steps on random EXEC/CODE/INDEX contents, each step compared with the "
             "documented unfolding rule; (2) loop programs ( n INDEX.DEFINE EXEC.LOOP B ), ( CODE.QUOTE B n INDEX.DEFINE CODE.LOOP ), "
             "( INT[v] INTVECTOR.LOOP B ) for every n in -1..6 (12 thorough) and generated bodies with probes, conditionals and loops nested "
             "to depth 3; a harness-registered VERIF.PROBE logs (INDEX stack, top INTEGER) and the trace is compared with the documented "
             "iteration sequence, plus: nothing left on INDEX/INTVECTOR/CODE/EXEC; (3) random programs over the control alphabet with every "
             "step judged. distinct = (combinator, stack-depth class, fired) / (loop nesting shape, trace length).",
        floors={"18 combinators": lambda a, t: set_n(a, "instructions") >= 18, "probe events": lambda a, t: a.counts.get("probe_events_checked", 0) >= 5000},
    ),
    "C08": dict(
        jobs=lambda tier: both(6),
        eval_keys=["steps", "api_relations", "relations"],
        rule="random code trees t (<= 14 points, depth <= 4, every atom kind, floats on a 1/8 grid) with a planted sub-item / near miss u and "
             "a substitute w; every CODE list-surgery instruction on (t,u,w) with indices in [-2S,2S] + {MIN,MAX}; Item::size/traverse/insert/"
             "contains/container/substitute/equals checked at every point of t; follow-up relations INSERT->EXTRACT, POSITION->EXTRACT, "
             "DISCREPANCY symmetry; distinct = (op, index class, depth, size, operands equal?).",
        floors={"19 instructions": lambda a, t: set_n(a, "instructions") >= 19},
    ),
    "C09": dict(
        jobs=lambda tier: both(8, None, stall_s=40),
        rule="overlap family: all length pairs 0..4 x 0..4 (0..6 thorough) x offsets [-len-2, len+2] + {MIN, MIN+1, MAX-1, MAX} x value "
             "draws; every other vector instruction: lengths 0..4 x integer operand {MIN,-1,0..len+1,MAX}; distinct = (name, lengths, operand class).",
        floors={"vector instructions": lambda a, t: set_n(a, "instructions") >= 88},
        supervisor_policy={},
    ),
    "C10": dict(
        jobs=lambda tier: [shards("release", 8, None, stall_s=40)],
        exhaustive=True,
        note_keys=["patterns"],
        rule="for every registered instruction, every vector of operand-stack depths in prod(0..=need) (exhaustive), x bystander "
             "variations incl. guard-failing operand values; distinct = (name, depth pattern, fired?).",
        floors={"all registered instructions": lambda a, t: set_n(a, "instructions") >= N_REGISTERED},
    ),
    "C16": dict(
        jobs=lambda tier: [shards("release", 12), shards("debug", 4)],
        eval_keys=["ops"],
        exhaustive=True,
        note_keys=["exhaustive_space"],
        rule="ALL histories of length <= 3 (4 thorough) over 79 operation instances of the whole public PushStack API (positions 0..5) from "
             "the empty and from a 3-element stack, plus random histories of length 300; element types i32 (unique values) and nested Items; "
             "after every operation the return value, the full contents and the printed form are compared with a Vec model. "
             "distinct = (type, op, position class in/=len/beyond, length).",
        floors={"histories": lambda a, t: a.counts.get("histories", 0) >= 100000},
    ),
    "C17": dict(
        jobs=lambda tier: [shards("release", 8), shards("debug", 4)],
        eval_keys=["ops", "io_steps"],
        exhaustive=True,
        note_keys=["exhaustive_space"],
        rule="ALL histories of length <= 6 (8 thorough) over {push, push_force, pop, flush} for capacities 1..5 and both buffer kinds, plus "
             "random histories of 3000+ operations on capacities up to 100; after every operation every read operation (get/copy/get_mut at "
             "0..cap+1, oldest/newest, iteration, sizes, printing) is compared with a bounded-sequence model and the cursor invariant is read "
             "through the verif hook; INPUT.*/OUTPUT.* instruction sequences against a FIFO model. distinct = (kind, capacity, cursor state, op).",
        floors={"histories": lambda a, t: a.counts.get("histories", 0) >= 10000, "8 io instructions": lambda a, t: set_n(a, "instructions") >= 8},
    ),
    "C18": dict(
        jobs=lambda tier: [shards("release", 12), shards("debug", 4)],
        eval_keys=["api_ops", "instr_steps"],
        exhaustive=True,
        note_keys=["exhaustive_space"],
        rule="ALL Graph API histories of length <= 3 (4 thorough) over add/remove node, add/remove edge, set state/weight, clone on 3 node "
             "slots + a never-issued id (after two initial nodes), random histories of 200 ops on 12 slots with stale ids; after every op the "
             "pub maps, all getters, filter, sizes, every snapshot and diff are compared with a set model; GRAPH.* instruction histories with "
             "valid/stale/bogus ids and history depths, judged by the reference model. distinct = (op, id class, graph size class).",
        floors={"19 graph instructions": lambda a, t: set_n(a, "instructions") >= 19, "histories": lambda a, t: a.counts.get("histories", 0) >= 5000},
    ),
    "C20": dict(
        jobs=lambda tier: [shards("release", 16)],
        eval_keys=["neighbourhoods", "decompositions", "instr_steps"],
        exhaustive=True,
        note_keys=["grid_size"],
        rule="EVERY (ntotal 1..130, ndim 1..4, index, radius in 11 values incl. 0 and values between lattice distances) (thorough: ntotal to "
             "1100 with all perfect powers, ndim to 6) against an integer brute-force oracle (points within 1e-5 of the radius are don't-cares); "
             "symmetry over all pairs, monotonicity, centre, order; decompose_index bijection on every hypercube up to 20000 cells; "
             "LIST.NEIGHBOR* with clamped / hostile operands. distinct = (ntotal, ndim, radius, perfect-power?).",
        floors={"4 instructions": lambda a, t: set_n(a, "instructions") >= 4},
    ),
}
