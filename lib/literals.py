"""Source-literal harvesting: every integer, float and short string literal in pushr's non-test source
becomes a member of the harness's value pools (gen.rs reads the file named by PVMON_LITERALS). A
behaviour that depends on ONE specific value (a magic constant compared against an operand, a threshold,
a special name) necessarily has that value in the source, so the generators meet it - and its
neighbours - without having to guess it. Rebuilt from /repo's working tree on every run."""
import glob, os, re

INT = re.compile(r"(?<![\w.])(0x[0-9a-fA-F_]+|\d[\d_]*)(?:_?(?:[iu](?:8|16|32|64|128|size)))?(?![\w.])")
FLT = re.compile(r"(?<![\w.])(\d[\d_]*\.\d[\d_]*(?:[eE][+-]?\d+)?|\d[\d_]*[eE][+-]?\d+)(?:_?f(?:32|64))?(?![\w])")
STR = re.compile(r'"([^"\\\n]{1,40})"')


def harvest(repo="/repo", out_path=None):
    ints, flts, strs = set(), set(), set()
    for f in sorted(glob.glob(os.path.join(repo, "src", "**", "*.rs"), recursive=True)):
        try:
            text = open(f, errors="replace").read()
        except OSError:
            continue
        cut = text.find("#[cfg(test)]")
        if cut >= 0:
            text = text[:cut]
        # drop comments (doc examples mention many numbers)
        text = re.sub(r"//[^\n]*", "", text)
        for m in FLT.finditer(text):
            try:
                flts.add(float(m.group(1).replace("_", "")))
            except ValueError:
                pass
        for m in INT.finditer(FLT.sub(" ", text)):
            t = m.group(1).replace("_", "")
            try:
                v = int(t, 16) if t.startswith("0x") else int(t)
            except ValueError:
                continue
            if v <= 2**32:
                ints.add(v)
        # constants written as expressions: a << b, a.pow(b) / pow(a, b), a * b of two literals
        for m in re.finditer(r"(?<![\w.])(\d+)\s*<<\s*(\d+)(?![\w.])", text):
            a, b = int(m.group(1)), int(m.group(2))
            if b < 40 and (a << b) <= 2**32:
                ints.add(a << b)
        for m in re.finditer(r"(?<![\w.])(\d+)(?:_?[iu](?:8|16|32|64|size))?\.pow\((\d+)\)", text):
            a, b = int(m.group(1)), int(m.group(2))
            if b < 40 and a ** b <= 2**32:
                ints.add(a ** b)
        for m in re.finditer(r"(?<![\w.])(\d+)\s*\*\s*(\d+)(?![\w.])", text):
            a, b = int(m.group(1)), int(m.group(2))
            if a * b <= 2**32:
                ints.add(a * b)
        for m in STR.finditer(text):
            s = m.group(1)
            if not re.search(r"\s", s) and "{" not in s:
                strs.add(s)
    lines = ["i %d" % v for v in sorted(ints)] + ["f %r" % v for v in sorted(flts)] + ["s %s" % s for s in sorted(strs)]
    if out_path:
        os.makedirs(os.path.dirname(out_path), exist_ok=True)
        with open(out_path, "w") as fh:
            fh.write("\n".join(lines) + "\n")
    return {"ints": len(ints), "floats": len(flts), "strings": len(strs)}


if __name__ == "__main__":
    import sys
    print(harvest(sys.argv[1] if len(sys.argv) > 1 else "/repo", "/tmp/literals.txt"))
