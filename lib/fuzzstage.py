"""Coverage-guided stage of the thorough tier: libFuzzer mutates the DECISION TAPE of the harness's own
generators (harness/src/fuzz.rs, rng::set_tape); every execution is one case of each random part of the
property's ordinary check, judged by the same monitors. Violations arrive in the same JSONL format as
from the sharded workers, so known-finding matching and replay files work unchanged. Crashes of the
fuzzer process itself (abort, allocation cap, stack overflow, time-out) are replayed in the ordinary
`pvmon` binary and classified by the property's supervisor policy."""
import fcntl, glob, os, re, resource, shutil, subprocess, time

FUZZ_BIN = "fuzz/target/x86_64-unknown-linux-gnu/release/fz"


def build(c):
    H = os.path.join(c["root"], "harness")
    F = os.path.join(H, "fuzz")
    lock_dst = os.path.join(F, "Cargo.lock")
    t0 = time.time()
    with open(os.path.join(H, ".fuzz-build.lock"), "w") as lk:
        fcntl.flock(lk, fcntl.LOCK_EX)
        if not os.path.exists(lock_dst):
            shutil.copy("/repo/Cargo.lock", lock_dst)
        env = dict(c["cargo_env"])
        env.pop("RUSTFLAGS", None)
        p = subprocess.run(["cargo", "+nightly", "fuzz", "build", "-s", "none", "--fuzz-dir", ".", "fz"], cwd=F, env=env,
                           stdout=subprocess.PIPE, stderr=subprocess.STDOUT, text=True)
        fcntl.flock(lk, fcntl.LOCK_UN)
    if p.returncode != 0:
        return None, p.stdout[-1500:]
    return os.path.join(H, FUZZ_BIN), "built in %.0fs" % (time.time() - t0)


def _limits():
    try:
        resource.setrlimit(resource.RLIMIT_STACK, (1 << 30, 1 << 30))
    except Exception:
        pass
    resource.setrlimit(resource.RLIMIT_AS, (16 << 30, 16 << 30))
    resource.setrlimit(resource.RLIMIT_CORE, (0, 0))


def classify(rc, err, timed_out):
    if timed_out:
        return "hang"
    if "ALLOC_CAP" in err:
        return "alloc_cap"
    if "stack overflow" in err or "has overflowed its stack" in err:
        return "stack_overflow"
    return "abort"


def fuzz_stage(c, cfg):
    prop, tier, seed, wdir, agg, extra = c["prop"], c["tier"], c["seed"], c["wdir"], c["agg"], c["extra"]
    fz = cfg.get("fuzz")
    if not fz:
        return
    if tier != "thorough":
        extra["fuzz"] = "coverage-guided decision-tape stage runs in the thorough tier only"
        return
    seconds = int(os.environ.get("VERIF_FUZZ_SECONDS", fz.get("seconds", 120)))
    procs = int(fz.get("procs", 16))
    binpath, msg = build(c)
    if not binpath:
        agg.inconclusive.append("fuzz target did not build: %s" % msg[-400:])
        extra["fuzz"] = {"result": "not built (inconclusive)"}
        return
    fdir = os.path.join(wdir, "fuzz")
    shutil.rmtree(fdir, ignore_errors=True)
    corpus = os.path.join(fdir, "corpus")
    os.makedirs(corpus)
    tapes = os.path.join(c["root"], "replay", prop, "tapes")
    shutil.rmtree(tapes, ignore_errors=True)
    # a few seed tapes of different lengths (deterministic from VERIF_SEED)
    import random
    rnd = random.Random(seed * 7919 + 13)
    for i in range(32):
        with open(os.path.join(corpus, "seed-%02d" % i), "wb") as f:
            f.write(bytes(rnd.getrandbits(8) for _ in range(rnd.choice([0, 8, 16, 64, 256, 1024]))))
    # ... and the stored corpus (distilled by selftest/fuzz_corpus.py on the unchanged tree): the stage continues from it
    packed = os.path.join(c["root"], "harness", "fuzz", "seeds", prop + ".tapes")
    stored = 0
    if os.path.exists(packed):
        import struct
        data = open(packed, "rb").read()
        pos = 0
        while pos + 4 <= len(data):
            (n,) = struct.unpack_from("<I", data, pos)
            pos += 4
            with open(os.path.join(corpus, "stored-%05d" % stored), "wb") as f:
                f.write(data[pos:pos + n])
            pos += n
            stored += 1
    ps = []
    t0 = time.time()
    for i in range(procs):
        art = os.path.join(fdir, "art-%d" % i)
        os.makedirs(art)
        env = dict(os.environ, PVMON_FUZZ_PROP=prop, PVMON_FUZZ_LOG=os.path.join(fdir, "log-%d" % i), PVMON_FUZZ_TAPES=tapes,
                   PVMON_FUZZ_CAP_MB=str(fz.get("cap_mb", 1024)))
        errf = open(os.path.join(fdir, "stderr-%d" % i), "wb")
        cmd = [binpath, corpus, "-max_total_time=%d" % seconds, "-timeout=%d" % fz.get("timeout", 25), "-max_len=%d" % fz.get("max_len", 2048),
               "-use_value_profile=1", "-reload=1", "-dict=%s" % os.path.join(c["root"], "harness", "fuzz", "tokens.dict"), "-seed=%d" % (seed * 1000 + i + 1), "-artifact_prefix=%s/" % art, "-print_final_stats=1", "-rss_limit_mb=6000"]
        ps.append((subprocess.Popen(cmd, cwd=fdir, env=env, stdout=subprocess.DEVNULL, stderr=errf, preexec_fn=_limits), errf, art, i))
    deadline = t0 + seconds + 120
    stats = {"execs": 0, "cov": 0, "ft": 0, "procs": procs, "seconds": seconds, "crashed_procs": 0}
    arts = []
    for p, errf, art, i in ps:
        try:
            p.wait(timeout=max(5, deadline - time.time()))
        except subprocess.TimeoutExpired:
            p.kill()
            p.wait()
            agg.inconclusive.append("fuzz process %d did not stop in time" % i)
        errf.close()
        err = open(errf.name, "rb").read().decode("utf-8", "replace")
        m = re.findall(r"stat::number_of_executed_units:\s+(\d+)", err)
        if m:
            stats["execs"] += int(m[-1])
        else:
            m2 = re.findall(r"^#(\d+)\s", err, re.M)
            if m2:
                stats["execs"] += int(m2[-1])
        m = re.findall(r"cov: (\d+) ft: (\d+)", err)
        if m:
            stats["cov"] = max(stats["cov"], int(m[-1][0]))
            stats["ft"] = max(stats["ft"], int(m[-1][1]))
        found = sorted(glob.glob(os.path.join(art, "*")))
        if found:
            stats["crashed_procs"] += 1
            arts.extend((f, err[-3000:]) for f in found)
    stats["wall_s"] = round(time.time() - t0, 1)
    stats["corpus_units"] = len(os.listdir(corpus))
    stats["stored_corpus_tapes"] = stored
    for lf in sorted(glob.glob(os.path.join(fdir, "log-*.jsonl"))):
        agg.feed(lf, "fuzz-" + os.path.basename(lf).split(".")[0])
    # fuzzer-process crashes: replay outside libFuzzer, in the ordinary worker binary
    policy = cfg.get("supervisor_policy", {})
    replayed = []
    for k, (f, errtail) in enumerate(arts[:24]):
        kind_hint = os.path.basename(f).split("-")[0]  # crash / timeout / oom / slow-unit
        if kind_hint == "slow":
            continue
        rlog = os.path.join(fdir, "replay-%d.jsonl" % k)
        timed_out = False
        try:
            rp = subprocess.run([c["bins"]["release"], prop, "--mode", "fuzz-replay", "--tape", f, "--log", rlog, "--cap-mb", str(fz.get("cap_mb", 1024))],
                                stdout=subprocess.PIPE, stderr=subprocess.PIPE, timeout=180, preexec_fn=_limits)
            rc, rerr = rp.returncode, rp.stderr.decode("utf-8", "replace")
        except subprocess.TimeoutExpired as e:
            timed_out, rc, rerr = True, -1, (e.stderr or b"").decode("utf-8", "replace")
        if os.path.exists(rlog):
            agg.feed(rlog, "fuzz-replay-%d" % k)
        if rc == 0 and not timed_out:
            replayed.append({"artifact": os.path.basename(f), "replay": "completed (any violation is in the log)"})
            continue
        kind = classify(rc, rerr, timed_out)
        act = policy.get(kind, "violation")
        keep = os.path.join(tapes, "%s-artifact-%s" % (prop, os.path.basename(f)))
        os.makedirs(tapes, exist_ok=True)
        shutil.copy(f, keep)
        replayed.append({"artifact": os.path.basename(f), "replay": kind, "action": act})
        if act == "violation":
            sig = "fuzz-replay|%s" % kind
            if cfg.get("supervisor_signature"):
                sig = cfg["supervisor_signature"](kind, "fuzz-replay")
            agg.add_violation(prop, sig, "decision tape %s makes the worker die/hang (%s) ; stderr: %s" % (keep, kind, rerr[-600:]))
        elif act == "envelope":
            agg.counts["envelope_exits_by_abort"] = agg.counts.get("envelope_exits_by_abort", 0) + 1
        else:
            agg.inconclusive.append("fuzz artifact %s: %s" % (os.path.basename(f), kind))
    hp = agg.counts.get("harness_panics_in_fuzz_mode", 0)
    if hp:
        stats["harness_panics"] = hp
        agg.inconclusive.append("%d executions ended in a panic of the harness itself (outside its monitors) in the fuzz build: a harness defect, not a verdict" % hp)
    stats["artifacts"] = replayed
    stats["what"] = ("libFuzzer (coverage + value profile) mutating the decision tape of this property's generators; each execution runs one case of every "
                     "random part of the check above under the same monitors; cov/ft = edges/features of pushr+harness reached")
    extra["fuzz"] = stats
    agg.counts["fuzz_execs_libfuzzer"] = stats["execs"]
    if stats["execs"] < 1000:
        agg.inconclusive.append("fuzz stage executed only %d tapes" % stats["execs"])
    shutil.rmtree(corpus, ignore_errors=True)
