#!/usr/bin/env python3
"""Regression calibration: re-introduce each repaired defect (reverse-apply its `fix:` commit to /repo's
working tree), run the check of the property it belongs to, expect a VIOLATION, always restore /repo.
Not a registered check. Usage: revert_fixes.py [tier] [only-hash-prefix]"""
import json, os, re, subprocess, sys, time
tier = sys.argv[1] if len(sys.argv) > 1 else "quick"
only = sys.argv[2] if len(sys.argv) > 2 else ""
kf = json.load(open("/verif/known_findings.json"))
res = []
def sh(c, **kw):
    p = subprocess.run(c, shell=True, stdout=subprocess.PIPE, stderr=subprocess.STDOUT, text=True, **kw)
    return p.returncode, p.stdout
assert sh("git -C /repo status --porcelain --untracked-files=no")[1].strip() == ""
for line in kf["fixed"]:
    m = re.match(r"fixed: property=(C\d+) ([0-9a-f]{7}) (.*)", line)
    if not m:
        continue
    prop, h, what = m.groups()
    if only and not h.startswith(only):
        continue
    also = re.findall(r"C\d\d", what.split("(also")[-1]) if "(also" in what else []
    rc, out = sh("git -C /repo show %s -- src | git -C /repo apply -R" % h)
    if rc != 0:
        res.append({"commit": h, "property": prop, "error": "reverse patch does not apply: " + out[-200:]})
        sh("git -C /repo checkout -- .")
        continue
    try:
        t0 = time.time()
        rc, out = sh("cd /verif && ./check %s %s" % (prop, tier), timeout=7200)
        sigs = [l.strip()[len("signature: "):] for l in out.splitlines() if l.strip().startswith("signature:")]
        r = {"commit": h, "property": prop, "what": what[:160], "exit": rc, "signatures": sigs[:5], "wall_s": round(time.time() - t0, 1), "also": {}}
        for a in also:
            if a != prop:
                rc2, out2 = sh("cd /verif && ./check %s %s" % (a, tier), timeout=7200)
                r["also"][a] = rc2
        res.append(r)
        print("%s %s exit=%d %s also=%s" % (h, prop, rc, sigs[:2], r["also"]), flush=True)
    finally:
        sh("git -C /repo checkout -- .")
json.dump(res, open("/verif/selftest/revert_results_%s.json" % tier, "w"), indent=1)
missed = [r for r in res if r.get("exit") != 1]
print("reverted fixes: %d, detected by own property check: %d, missed: %s" % (len(res), len(res) - len(missed), [(r["commit"], r["property"]) for r in missed]))
