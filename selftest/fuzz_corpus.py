#!/usr/bin/env python3
"""Distils a corpus of decision tapes for the quick tier (not a registered check).

  fuzz_corpus.py <seconds> [PROP ...]

For each property: run the coverage-guided stage's fuzz target (16 processes) for <seconds> starting
from the stored corpus, minimise the resulting corpus with libFuzzer's -merge=1 (keeps one tape per
coverage feature set), cap it, and store it packed as harness/fuzz/seeds/<PROP>.tapes
([u32 LE length][bytes]...). `./check <PROP> quick|thorough` replays the packed corpus with
`pvmon --mode fuzz-corpus` under the ordinary supervisor, and the thorough fuzz stage starts from it.
Run only on the UNCHANGED tree: the corpus is coverage-distilled workload, not an oracle."""
import os, shutil, struct, subprocess, sys, time

ROOT = os.path.dirname(os.path.dirname(os.path.abspath(__file__)))
sys.path.insert(0, os.path.join(ROOT, "lib"))
from propcfg import PROPS  # noqa: E402
import fuzzstage  # noqa: E402

MAX_TAPES = 2500
MAX_BYTES = 1_500_000


def unpack(path):
    out = []
    if not os.path.exists(path):
        return out
    data = open(path, "rb").read()
    pos = 0
    while pos + 4 <= len(data):
        (n,) = struct.unpack_from("<I", data, pos)
        pos += 4
        out.append(data[pos:pos + n])
        pos += n
    return out


def main():
    seconds = int(sys.argv[1])
    props = sys.argv[2:] or [p for p in sorted(PROPS) if PROPS[p].get("fuzz")]
    env = dict(os.environ, CARGO_NET_OFFLINE="true")
    binpath, msg = fuzzstage.build(dict(root=ROOT, cargo_env=env))
    assert binpath, msg
    seeds_dir = os.path.join(ROOT, "harness", "fuzz", "seeds")
    os.makedirs(seeds_dir, exist_ok=True)
    for prop in props:
        work = os.path.join(ROOT, "work", "corpus-" + prop)
        shutil.rmtree(work, ignore_errors=True)
        corpus = os.path.join(work, "corpus")
        merged = os.path.join(work, "merged")
        os.makedirs(corpus)
        os.makedirs(merged)
        packed = os.path.join(seeds_dir, prop + ".tapes")
        for i, t in enumerate(unpack(packed)):
            open(os.path.join(corpus, "old-%05d" % i), "wb").write(t)
        penv = dict(env, PVMON_FUZZ_PROP=prop, PVMON_FUZZ_LOG=os.path.join(work, "log"), PVMON_FUZZ_CAP_MB="1024")
        t0 = time.time()
        ps = []
        for i in range(16):
            ps.append(subprocess.Popen([binpath, corpus, "-max_total_time=%d" % seconds, "-timeout=25", "-max_len=1024", "-use_value_profile=1", "-reload=1", "-dict=%s" % os.path.join(ROOT, "harness", "fuzz", "tokens.dict"),
                                        "-seed=%d" % (i + 1), "-artifact_prefix=%s/art-%d-" % (work, i)],
                                       cwd=work, env=penv, stdout=subprocess.DEVNULL, stderr=subprocess.DEVNULL, preexec_fn=fuzzstage._limits))
        for p in ps:
            p.wait()
        n_all = len(os.listdir(corpus))
        subprocess.run([binpath, "-merge=1", "-max_len=1024", "-timeout=25", merged, corpus], cwd=work, env=penv, stdout=subprocess.DEVNULL, stderr=subprocess.DEVNULL,
                       preexec_fn=fuzzstage._limits)
        files = sorted(os.listdir(merged), key=lambda f: os.path.getsize(os.path.join(merged, f)))
        out = bytearray()
        kept = 0
        for f in files:
            b = open(os.path.join(merged, f), "rb").read()
            if kept >= MAX_TAPES or len(out) + len(b) + 4 > MAX_BYTES:
                break
            out += struct.pack("<I", len(b)) + b
            kept += 1
        open(packed, "wb").write(bytes(out))
        arts = [f for f in os.listdir(work) if f.startswith("art-")]
        print("%s: %d units after %ds -> %d after merge -> %d kept (%d bytes); artifacts: %d; %.0fs" % (prop, n_all, seconds, len(files), kept, len(out), len(arts), time.time() - t0), flush=True)
        shutil.rmtree(work, ignore_errors=True)


if __name__ == "__main__":
    main()
