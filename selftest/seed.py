#!/usr/bin/env python3
"""Calibration of the monitors against seeded breakage (not a registered check).

  seed.py verify <worktree> <name> <prop>   confirm a sub-agent's mutant (suite passes, demo fails with it and
                                            passes without it) and store it as /verif/seeded/<name>/
  seed.py run <name> [tier] [props...]      apply /verif/seeded/<name>/patch.diff to /repo, run the checks,
                                            ALWAYS revert /repo afterwards; records the outcome in meta.json
  seed.py all [tier]                        run every stored mutant against its own property's check
"""
import json, os, shutil, subprocess, sys, time

SEEDED = "/verif/seeded"
ENV = dict(os.environ, CARGO_NET_OFFLINE="true")


def sh(cmd, cwd=None, timeout=1800):
    p = subprocess.run(cmd, shell=True, cwd=cwd, env=ENV, stdout=subprocess.PIPE, stderr=subprocess.STDOUT, text=True, timeout=timeout)
    return p.returncode, p.stdout


def verify(wt, name, prop):
    d = os.path.join(SEEDED, name)
    os.makedirs(d, exist_ok=True)
    patch = os.path.join(wt, "patch.diff")
    # normalise: start from a clean source tree, apply the patch
    sh("git checkout -- src", cwd=wt)
    rc, out = sh("git apply --check patch.diff && git apply patch.diff", cwd=wt)
    assert rc == 0, out
    rc1, out1 = sh("cargo test --offline --lib 2>&1 | grep -E '^test result'", cwd=wt)
    suite_ok = "291 passed; 0 failed" in out1
    rc2, out2 = sh("cargo test --offline --test demo_mutant 2>&1", cwd=wt)
    demo_fails_with = rc2 != 0 and ("FAILED" in out2 or "failed" in out2)
    sh("git apply -R patch.diff", cwd=wt)
    rc3, out3 = sh("cargo test --offline --test demo_mutant 2>&1", cwd=wt)
    demo_passes_without = rc3 == 0
    shutil.copy(patch, os.path.join(d, "patch.diff"))
    shutil.copy(os.path.join(wt, "tests", "demo_mutant.rs"), os.path.join(d, "demo_mutant.rs"))
    desc = ""
    if os.path.exists(os.path.join(wt, "meta.txt")):
        desc = open(os.path.join(wt, "meta.txt")).read()
    base = subprocess.run("git -C /repo rev-parse --short HEAD", shell=True, capture_output=True, text=True).stdout.strip()
    meta = {
        "name": name, "breaks_property": prop, "author": "independent sub-agent (given only the property text and a scratch worktree)",
        "repo_base_commit": base,
        "needs_to_manifest": desc,
        "confirmed": {"suite_291_pass_with_change": suite_ok, "demo_fails_with_change": demo_fails_with, "demo_passes_without_change": demo_passes_without,
                      "commands": ["cargo test --offline --lib", "cargo test --offline --test demo_mutant (with / without patch.diff)"]},
        "detection": {},
    }
    json.dump(meta, open(os.path.join(d, "meta.json"), "w"), indent=1)
    print(name, "suite_ok", suite_ok, "demo_fails_with", demo_fails_with, "demo_passes_without", demo_passes_without)
    return suite_ok and demo_fails_with and demo_passes_without


def run(name, tier="quick", props=None):
    d = os.path.join(SEEDED, name)
    meta = json.load(open(os.path.join(d, "meta.json")))
    props = props or [meta["breaks_property"]]
    rc, out = sh("git -C /repo status --porcelain --untracked-files=no")
    assert out.strip() == "", "/repo has local changes: " + out
    rc, out = sh("git -C /repo apply %s" % os.path.join(d, "patch.diff"))
    assert rc == 0, out
    res = {}
    try:
        for p in props:
            t0 = time.time()
            rc, out = sh("./check %s %s" % (p, tier), cwd="/verif", timeout=7200)
            sigs = [l.strip()[len("signature: "):] for l in out.splitlines() if l.strip().startswith("signature:")]
            res[p] = {"exit": rc, "violation_lines": out.count("VIOLATION property="), "signatures": sigs[:8], "wall_s": round(time.time() - t0, 1)}
            print("  %s on %s (%s): exit=%d %s" % (name, p, tier, rc, sigs[:3]))
    finally:
        sh("git -C /repo checkout -- .")
    meta.setdefault("detection", {})[tier] = res
    meta["detected_by_own_property_check"] = any(v["exit"] == 1 for k, v in res.items() if k == meta["breaks_property"]) or meta.get("detected_by_own_property_check", False)
    json.dump(meta, open(os.path.join(d, "meta.json"), "w"), indent=1)
    return res


if __name__ == "__main__":
    if sys.argv[1] == "verify":
        ok = verify(sys.argv[2], sys.argv[3], sys.argv[4])
        sys.exit(0 if ok else 1)
    elif sys.argv[1] == "run":
        tier = sys.argv[3] if len(sys.argv) > 3 else "quick"
        run(sys.argv[2], tier, sys.argv[4:] or None)
    elif sys.argv[1] == "all":
        tier = sys.argv[2] if len(sys.argv) > 2 else "quick"
        only_from = sys.argv[3] if len(sys.argv) > 3 else ""
        for n in sorted(os.listdir(SEEDED)):
            if os.path.exists(os.path.join(SEEDED, n, "patch.diff")) and n >= only_from:
                try:
                    run(n, tier)
                except AssertionError as e:
                    print("  %s: NOT RUN (%s)" % (n, str(e)[:200]))
                    sh("git -C /repo checkout -- .")
