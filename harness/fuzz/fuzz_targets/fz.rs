#![no_main]
//! libFuzzer entry: the input is the decision tape of pvmon's generators (see pvmon::fuzz).
//! Environment: PVMON_FUZZ_PROP (C01..), PVMON_FUZZ_LOG (JSONL path prefix), PVMON_FUZZ_TAPES
//! (directory for tapes of violating executions), PVMON_FUZZ_CAP_MB (allocation cap).
use libfuzzer_sys::fuzz_target;
use pvmon::fuzz::FuzzSession;
use std::cell::RefCell;

thread_local! {
    static SESSION: RefCell<Option<FuzzSession>> = RefCell::new(None);
}

fn with_session<R>(f: impl FnOnce(&mut FuzzSession) -> R) -> R {
    SESSION.with(|s| {
        let mut s = s.borrow_mut();
        if s.is_none() {
            let prop = std::env::var("PVMON_FUZZ_PROP").unwrap_or_else(|_| "C04".into());
            let log = format!("{}.{}.jsonl", std::env::var("PVMON_FUZZ_LOG").unwrap_or_else(|_| "/dev/null".into()), std::process::id());
            let tapes = std::env::var("PVMON_FUZZ_TAPES").ok();
            let cap: usize = std::env::var("PVMON_FUZZ_CAP_MB").ok().and_then(|v| v.parse().ok()).unwrap_or(1024);
            // libfuzzer-sys installs an aborting panic hook; pvmon's monitors catch panics themselves
            let _ = std::panic::take_hook();
            pvmon::mon::install_panic_hook();
            pvmon::alloc::set_cap(cap << 20);
            *s = Some(FuzzSession::new(&prop, &log, tapes, 1));
        }
        f(s.as_mut().unwrap())
    })
}

fuzz_target!(|data: &[u8]| {
    with_session(|s| {
        // a panic of the HARNESS itself (outside its monitors) must not end the fuzzing process:
        // it is counted and reported by the stage as a harness error, never as a violation
        let r = std::panic::catch_unwind(std::panic::AssertUnwindSafe(|| {
            s.one(data);
        }));
        if r.is_err() {
            pvmon::rng::set_tape(None);
            s.ctx.rec.count("harness_panics_in_fuzz_mode", 1);
            s.ctx.rec.checkpoint();
        }
    });
});
