//! pvmon: runtime monitors for johker/pushr. See /verif/DESIGN.md.
pub mod alloc;
pub mod dmon;
pub mod frame;
pub mod fuzz;
pub mod gen;
pub mod mon;
pub mod out;
pub mod props;
pub mod refm;
pub mod rng;
pub mod snap;

#[global_allocator]
static GLOBAL: alloc::CountingAlloc = alloc::CountingAlloc;

#[derive(Clone, Copy, PartialEq, Debug)]
pub enum Tier {
    Quick,
    Thorough,
}

pub struct Ctx {
    pub prop: String,
    pub tier: Tier,
    pub seed: u64,
    pub shard: usize,
    pub nshards: usize,
    /// first case index to run (supervisor restarts a worker after an abort with start = case+1)
    pub start: u64,
    pub mode: String,
    pub profile: &'static str,
    pub rec: out::Rec,
    /// fuzz mode: the one case index that is run in every random part (decisions come from the
    /// tape, see rng::set_tape); exhaustive parts are skipped
    pub fuzz: Option<u64>,
    /// largest case index any loop asked about (fuzz mode uses it to size the index space)
    pub max_case: std::cell::Cell<u64>,
}

impl Ctx {
    pub fn quick(&self) -> bool {
        self.tier == Tier::Quick
    }
    pub fn is_fuzz(&self) -> bool {
        self.fuzz.is_some()
    }
    /// scale a workload size by tier
    pub fn n(&self, quick: usize, thorough: usize) -> usize {
        if self.quick() {
            quick
        } else {
            thorough
        }
    }
    pub fn mine(&self, case: u64) -> bool {
        if let Some(t) = self.fuzz {
            if case > self.max_case.get() {
                self.max_case.set(case);
            }
            return case == t;
        }
        case >= self.start && (case % self.nshards as u64) as usize == self.shard
    }
}

pub fn build_profile() -> &'static str {
    if cfg!(debug_assertions) {
        "debug"
    } else {
        "release"
    }
}
