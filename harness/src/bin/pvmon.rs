//! pvmon worker: `pvmon <PROP> --tier quick|thorough --seed N --shard i --nshards n --log FILE
//!                      [--marker FILE] [--start K] [--mode M] [--cap-mb N]`
use pvmon::{alloc, build_profile, mon, out::Rec, props, Ctx, Tier};

fn main() {
    let args: Vec<String> = std::env::args().collect();
    if args.len() < 2 {
        eprintln!("usage: pvmon <PROP> [options]");
        std::process::exit(2);
    }
    let mut tier = Tier::Quick;
    let mut seed = 1u64;
    let mut shard = 0usize;
    let mut nshards = 1usize;
    let mut log = String::from("/dev/stdout");
    let mut marker = None;
    let mut start = 0u64;
    let mut mode = String::new();
    let mut cap_mb = 512usize;
    let mut tapes: Vec<String> = vec![];
    let mut fuzz_n = 2000u64;
    let mut k = 2;
    while k < args.len() {
        let v = args.get(k + 1).cloned().unwrap_or_default();
        match args[k].as_str() {
            "--tier" => tier = if v == "thorough" { Tier::Thorough } else { Tier::Quick },
            "--seed" => seed = v.parse().unwrap_or(1),
            "--shard" => shard = v.parse().unwrap_or(0),
            "--nshards" => nshards = v.parse().unwrap_or(1),
            "--log" => log = v,
            "--marker" => marker = Some(v),
            "--start" => start = v.parse().unwrap_or(0),
            "--mode" => mode = v,
            "--cap-mb" => cap_mb = v.parse().unwrap_or(512),
            "--tape" => tapes.push(v),
            "--fuzz-n" => fuzz_n = v.parse().unwrap_or(2000),
            _ => {
                eprintln!("unknown option {}", args[k]);
                std::process::exit(2);
            }
        }
        k += 2;
    }
    let prop = args[1].clone();
    mon::install_panic_hook();
    alloc::set_cap(cap_mb << 20);
    // every workload runs on a thread with a large stack: deep recursion in pushr (Item::size,
    // clone, drop of nested lists) must show up as a finding of ours, not as a harness limit
    let child = std::thread::Builder::new()
        .stack_size(1 << 30)
        .spawn(move || {
            if mode == "fuzz-replay" || mode == "fuzz-random" || mode == "fuzz-corpus" {
                // decision-tape cases outside libFuzzer: replay of recorded tapes, or N random tapes
                let mut fs = pvmon::fuzz::FuzzSession::new_with_marker(&prop, &log, marker.clone(), None, seed);
                if mode == "fuzz-corpus" {
                    // packed corpus of decision tapes distilled by earlier coverage-guided runs
                    // (harness/fuzz/seeds/<PROP>.tapes: [u32 LE length][bytes]...), sharded by index
                    let mut n = 0u64;
                    for t in tapes.iter() {
                        let data = std::fs::read(t).unwrap_or_default();
                        let mut pos = 0usize;
                        while pos + 4 <= data.len() {
                            let len = u32::from_le_bytes([data[pos], data[pos + 1], data[pos + 2], data[pos + 3]]) as usize;
                            pos += 4;
                            if pos + len > data.len() {
                                break;
                            }
                            if n >= start && (n % nshards as u64) as usize == shard {
                                fs.ctx.rec.marker_case_override = Some(n);
                                fs.ctx.rec.case_marker(n, "corpus tape");
                                fs.one(&data[pos..pos + len]);
                                fs.ctx.rec.count("corpus_tapes", 1);
                            }
                            pos += len;
                            n += 1;
                        }
                    }
                } else if mode == "fuzz-replay" {
                    for t in tapes.iter() {
                        match std::fs::read(t) {
                            Ok(data) => {
                                let n = fs.one(&data);
                                eprintln!("tape {}: {} violation(s)", t, n);
                            }
                            Err(e) => eprintln!("cannot read tape {}: {}", t, e),
                        }
                    }
                } else {
                    let mut r = pvmon::rng::Rng::new(seed ^ 0xF022);
                    for _ in 0..fuzz_n {
                        let len = r.below(1024);
                        let data: Vec<u8> = (0..len).map(|_| r.next_u64() as u8).collect();
                        fs.one(&data);
                    }
                }
                fs.ctx.rec.note("profile", fs.ctx.profile);
                fs.ctx.rec.finish();
                return 0;
            }
            let rec = Rec::new(&log, marker);
            let mut ctx = Ctx { prop, tier, seed, shard, nshards, start, mode, profile: build_profile(), rec, fuzz: None, max_case: std::cell::Cell::new(0) };
            let known = props::run(&mut ctx);
            if !known {
                eprintln!("unknown property {}", ctx.prop);
                return 2;
            }
            ctx.rec.note("profile", ctx.profile);
            ctx.rec.finish();
            0
        })
        .unwrap();
    let code = match child.join() {
        Ok(c) => c,
        Err(e) => {
            let msg = if let Some(s) = e.downcast_ref::<&str>() { s.to_string() } else if let Some(s) = e.downcast_ref::<String>() { s.clone() } else { "?".into() };
            eprintln!("WORKLOAD-THREAD-PANIC: {}", msg);
            3
        }
    };
    std::process::exit(code);
}
