#![allow(unused_braces)]
//! Reference model: documented semantics of every registered instruction over plain vectors
//! (Snap), for the case that the instruction FIRES (needs and guards of frame.rs are met).
//! `check_fired(name, pre, post)` says whether `post` is an acceptable result. Where the
//! documentation leaves freedom (or the arithmetic result is not representable) the accept set
//! is wider than one state; where today's code deviates in a way pinned by pushr's own unit
//! tests, a *recogniser* names the exact deviation class so it can be listed as a known finding.
//!
//! Err((class, text)): class "mismatch" = plain disagreement; any other class = a recognised,
//! named deviation.

use crate::frame::*;
use crate::snap::*;
use pushr::push::state::*;

pub type RefResult = Result<(), (String, String)>;

fn mism(exp: &Snap, got: &Snap) -> RefResult {
    if exp == got {
        Ok(())
    } else {
        Err(("mismatch".into(), exp.diff_text(got)))
    }
}
fn any_of(exps: &[Snap], got: &Snap) -> RefResult {
    if exps.iter().any(|e| e == got) {
        Ok(())
    } else {
        Err(("mismatch".into(), exps[0].diff_text(got)))
    }
}
fn bad(text: String) -> RefResult {
    Err(("mismatch".into(), text))
}

macro_rules! on_stack {
    ($s:expr, $t:expr, $v:ident => $body:expr) => {
        match $t {
            St::Bool => {
                let $v = &mut $s.b;
                $body
            }
            St::Int => {
                let $v = &mut $s.i;
                $body
            }
            St::Float => {
                let $v = &mut $s.f;
                $body
            }
            St::Name => {
                let $v = &mut $s.n;
                $body
            }
            St::Code => {
                let $v = &mut $s.c;
                $body
            }
            St::Exec => {
                let $v = &mut $s.e;
                $body
            }
            St::BV => {
                let $v = &mut $s.bv;
                $body
            }
            St::IV => {
                let $v = &mut $s.iv;
                $body
            }
            St::FV => {
                let $v = &mut $s.fv;
                $body
            }
            _ => unreachable!(),
        }
    };
}

pub fn stack_id(t: St) -> i32 {
    match t {
        St::Bool => BOOL_STACK_ID,
        St::BV => BOOL_VECTOR_STACK_ID,
        St::Code => CODE_STACK_ID,
        St::Exec => EXEC_STACK_ID,
        St::Float => FLOAT_STACK_ID,
        St::FV => FLOAT_VECTOR_STACK_ID,
        St::Index => INDEX_STACK_ID,
        St::Input => INPUT_STACK_ID,
        St::Int => INT_STACK_ID,
        St::IV => INT_VECTOR_STACK_ID,
        St::Name => NAME_STACK_ID,
        St::Output => OUTPUT_STACK_ID,
        _ => 0,
    }
}

/// the generic position map of C05 (also used directly by the C05 workload)
pub fn generic_stack_op(s: &mut Snap, t: St, op: &str) -> bool {
    match op {
        "DUP" => on_stack!(s, t, v => { let x = v[0].clone(); v.insert(0, x); }),
        "POP" => on_stack!(s, t, v => { if !v.is_empty() { v.remove(0); } }),
        "SWAP" => on_stack!(s, t, v => v.swap(0, 1)),
        "ROT" => on_stack!(s, t, v => { let x = v.remove(2); v.insert(0, x); }),
        "FLUSH" => on_stack!(s, t, v => v.clear()),
        "YANK" => {
            let idx = s.i.remove(0);
            on_stack!(s, t, v => { if !v.is_empty() { let k = clamp(idx, v.len()); let x = v.remove(k); v.insert(0, x); } })
        }
        "YANKDUP" => {
            let idx = s.i.remove(0);
            on_stack!(s, t, v => { if !v.is_empty() { let k = clamp(idx, v.len()); let x = v[k].clone(); v.insert(0, x); } })
        }
        "SHOVE" => {
            let idx = s.i.remove(0);
            on_stack!(s, t, v => { if !v.is_empty() { let k = clamp(idx, v.len()); let x = v.remove(0); v.insert(k, x); } })
        }
        "STACKDEPTH" => {
            let d = s.depth(t) as i32 + if t == St::Int { 1 } else { 0 };
            s.i.insert(0, d);
        }
        "ID" => s.i.insert(0, stack_id(t)),
        _ => return false,
    }
    true
}

fn feq(a: u32, b: u32) -> bool {
    fl(a) == fl(b)
}

/// |a-b| within `ulps` units in the last place (or same non-finite class)
pub fn close_ulps(a: f32, b: f32, ulps: u32) -> bool {
    if a.is_nan() || b.is_nan() {
        return a.is_nan() && b.is_nan();
    }
    if a == b {
        // equal numbers; two zeros must also agree in sign (sin(-0.0) is -0.0: no library rounds that away)
        return a != 0.0 || a.to_bits() == b.to_bits();
    }
    if a.is_infinite() || b.is_infinite() {
        return false;
    }
    let ord = |x: f32| -> i64 {
        let b = x.to_bits() as i32;
        (if b < 0 { i32::MIN.wrapping_sub(b) } else { b }) as i64
    };
    (ord(a) - ord(b)).abs() <= ulps as i64
}

/// Is `ones` TRUE bits the "sparsity share" of a vector of length n? Documented: the minority
/// share is rounded to two decimals and (share * n) bits are set. Which neighbouring integer a
/// fractional product becomes is not documented (README: "(sparsity * n) 'true' values"), so both
/// are accepted; an integral product must be met exactly.
pub fn true_count_ok(n: usize, sp: f32, ones: usize) -> bool {
    let minority = sp.min(1.0 - sp) as f64;
    let m100 = 100.0 * minority;
    let cands: Vec<f64> = if (m100 - m100.floor() - 0.5).abs() < 1e-3 { vec![m100.floor(), m100.ceil()] } else { vec![m100.round()] };
    for c in cands {
        let s2 = c / 100.0;
        let eff = if sp > 0.5 { 1.0 - s2 } else { s2 };
        let x = eff * n as f64;
        let xi = x.round();
        let ok = if (x - xi).abs() < 1e-6 * (n.max(1) as f64) { ones as f64 == xi } else { ones as f64 == x.floor() || ones as f64 == x.ceil() };
        if ok {
            return true;
        }
    }
    false
}

/// the list whose direct element the FIRST instance (depth-first order) of `s` inside `t` is
pub fn first_container(t: &SItem, s: &SItem) -> Option<SItem> {
    if let SItem::List(v) = t {
        for x in v.iter() {
            if x == s {
                return Some(t.clone());
            }
            if let Some(c) = first_container(x, s) {
                return Some(c);
            }
        }
    }
    None
}

fn subst(t: &SItem, pattern: &SItem, sub: &SItem) -> SItem {
    if t == pattern {
        return sub.clone();
    }
    match t {
        SItem::List(v) => SItem::List(v.iter().map(|x| subst(x, pattern, sub)).collect()),
        o => o.clone(),
    }
}

fn atoms_sorted(it: &[&SItem]) -> Vec<SItem> {
    let mut out: Vec<&SItem> = vec![];
    for x in it {
        x.atoms(&mut out);
    }
    let mut v: Vec<SItem> = out.into_iter().cloned().collect();
    v.sort();
    v
}

/// n-th (0-based) literal of the wanted kind inside `item`, depth-first from the top
pub fn nth_typed(item: &SItem, kind: u8, n: i64) -> Option<SItem> {
    if n < 0 {
        return None;
    }
    let mut pts = vec![];
    item.preorder(&mut pts);
    let mut k = 0i64;
    for p in pts {
        let m = match (kind, p) {
            (0, SItem::Bool(_)) | (1, SItem::Int(_)) | (2, SItem::Float(_)) => true,
            _ => false,
        };
        if m {
            if k == n {
                return Some(p.clone());
            }
            k += 1;
        }
    }
    None
}

/// integer edge length: least e with e^d >= n
pub fn edge_len(n: usize, d: usize) -> usize {
    let mut e = 1usize;
    loop {
        let mut p: u128 = 1;
        for _ in 0..d {
            p = p.saturating_mul(e as u128);
            if p >= n as u128 {
                break;
            }
        }
        if p >= n as u128 {
            return e;
        }
        e += 1;
    }
}

/// Brute-force neighbourhood with integer arithmetic. Returns (surely inside, don't-care) index
/// sets: points whose (irrational) distance is within 1e-6 relative of the radius are don't-cares;
/// integer distances are compared exactly.
pub fn neighbours_ref(ntotal: usize, ndim: usize, index: usize, radius: f32) -> (Vec<i32>, Vec<i32>) {
    let e = edge_len(ntotal, ndim);
    let coords = |mut i: usize| -> Vec<i64> {
        let mut c = Vec::with_capacity(ndim);
        for _ in 0..ndim {
            c.push((i % e) as i64);
            i /= e;
        }
        c
    };
    let c0 = coords(index);
    let r = radius as f64;
    let mut sure = vec![];
    let mut dc = vec![];
    for i in 0..ntotal {
        let c = coords(i);
        let d2: i64 = c.iter().zip(c0.iter()).map(|(a, b)| (a - b) * (a - b)).sum();
        let d = (d2 as f64).sqrt();
        // a distance that is an integer is computed exactly in f32: no tolerance there;
        // otherwise sqrt is rounded and a radius within a few ulps of it is a don't-care
        let root = d.round() as i64;
        let exact = root * root == d2;
        let tol = if exact { 0.0 } else { 1e-6 * d.max(1.0) };
        if !exact && (d - r).abs() <= tol {
            dc.push(i as i32);
        } else if exact && d == r {
            sure.push(i as i32);
        } else if d < r {
            sure.push(i as i32);
        }
    }
    (sure, dc)
}

fn check_neighbour_vec(got: &[i32], sure: &[i32], dc: &[i32]) -> Result<(), String> {
    // ascending, no repeats, contains all of `sure`, and nothing outside sure ∪ dc
    for w in got.windows(2) {
        if w[0] >= w[1] {
            return Err(format!("neighbour ids not strictly ascending: {:?}", got));
        }
    }
    for s in sure {
        if !got.contains(s) {
            return Err(format!("index {} is inside the radius but missing from {:?}", s, got));
        }
    }
    for g in got {
        if !sure.contains(g) && !dc.contains(g) {
            return Err(format!("index {} is outside the radius but reported in {:?}", g, got));
        }
    }
    Ok(())
}

fn load_items_ref(e: &mut Snap, ids: &[i32]) -> Vec<SItem> {
    let mut items = vec![];
    for id in ids {
        match *id {
            BOOL_STACK_ID => {
                if !e.b.is_empty() {
                    items.push(SItem::Bool(e.b.remove(0)))
                }
            }
            BOOL_VECTOR_STACK_ID => {
                if !e.bv.is_empty() {
                    items.push(SItem::BV(e.bv.remove(0)))
                }
            }
            CODE_STACK_ID => {
                if !e.c.is_empty() {
                    items.push(e.c.remove(0))
                }
            }
            EXEC_STACK_ID => {
                if !e.e.is_empty() {
                    items.push(e.e.remove(0))
                }
            }
            FLOAT_STACK_ID => {
                if !e.f.is_empty() {
                    items.push(SItem::Float(e.f.remove(0)))
                }
            }
            FLOAT_VECTOR_STACK_ID => {
                if !e.fv.is_empty() {
                    items.push(SItem::FV(e.fv.remove(0)))
                }
            }
            INT_STACK_ID => {
                if !e.i.is_empty() {
                    items.push(SItem::Int(e.i.remove(0)))
                }
            }
            INT_VECTOR_STACK_ID => {
                if !e.iv.is_empty() {
                    items.push(SItem::IV(e.iv.remove(0)))
                }
            }
            NAME_STACK_ID => {
                if !e.n.is_empty() {
                    items.push(SItem::Name(e.n.remove(0)))
                }
            }
            _ => {}
        }
    }
    // Item::list(items): the LAST loaded item is the first element of the record
    items.reverse();
    items
}

fn filter_ids(g: &SGraph, states: &[i32], ids: impl Iterator<Item = usize>) -> Vec<i32> {
    let mut v: Vec<i32> = ids
        .filter(|id| match g.state(*id) {
            Some(st) => states.is_empty() || states.contains(&st),
            None => false,
        })
        .map(|id| id as i32)
        .collect();
    v.sort();
    v.dedup();
    v
}

fn as_set(v: &[i32]) -> Vec<i32> {
    let mut v = v.to_vec();
    v.sort();
    v.dedup();
    v
}

/// Compare everything except the top INTVECTOR, which is compared as a set.
fn check_set_result(mut exp: Snap, want: Vec<i32>, post: &Snap, what: &str) -> RefResult {
    if post.iv.is_empty() {
        return bad(format!("{}: no result vector pushed", what));
    }
    let got = as_set(&post.iv[0]);
    if got != want {
        return bad(format!("{}: expected id set {:?} got {:?}", what, want, post.iv[0]));
    }
    exp.iv.insert(0, post.iv[0].clone());
    mism(&exp, post)
}

pub fn check_fired(name: &str, pre: &Snap, post: &Snap) -> RefResult {
    let (prefix, suf) = split(name);
    let mut e = pre.clone();

    // ---- generic family --------------------------------------------------------------------
    if let Some(t) = stack_of_prefix(prefix) {
        match suf {
            "DUP" | "POP" | "SWAP" | "ROT" | "FLUSH" | "YANK" | "YANKDUP" | "SHOVE" | "STACKDEPTH" | "ID" => {
                if suf == "ROT" && matches!(t, St::BV | St::IV | St::FV) {
                    return bad("ROT is not documented for vector stacks".into());
                }
                generic_stack_op(&mut e, t, suf);
                return mism(&e, post);
            }
            "DDUP" if t == St::Int => {
                let (a, b) = (e.i[0], e.i[1]);
                e.i.insert(0, b);
                e.i.insert(0, a);
                return mism(&e, post);
            }
            "DEFINE" if t != St::Name => {
                let nm = e.n.remove(0);
                let val = match t {
                    St::Bool => SItem::Bool(e.b.remove(0)),
                    St::Int => SItem::Int(e.i.remove(0)),
                    St::Float => SItem::Float(e.f.remove(0)),
                    St::Code => e.c.remove(0),
                    St::Exec => e.e.remove(0),
                    St::BV => SItem::BV(e.bv.remove(0)),
                    St::IV => SItem::IV(e.iv.remove(0)),
                    St::FV => SItem::FV(e.fv.remove(0)),
                    _ => unreachable!(),
                };
                e.nb.insert(nm, val);
                return mism(&e, post);
            }
            "=" | "EQUAL" => {
                match t {
                    St::Bool => {
                        let (b, a) = (e.b.remove(0), e.b.remove(0));
                        e.b.insert(0, a == b);
                    }
                    St::Int => {
                        let (b, a) = (e.i.remove(0), e.i.remove(0));
                        e.b.insert(0, a == b);
                    }
                    St::Float => {
                        let (b, a) = (e.f.remove(0), e.f.remove(0));
                        e.b.insert(0, feq(a, b));
                    }
                    St::Name => {
                        let (b, a) = (e.n.remove(0), e.n.remove(0));
                        e.b.insert(0, a == b);
                    }
                    St::BV => {
                        let (b, a) = (e.bv.remove(0), e.bv.remove(0));
                        e.b.insert(0, a == b);
                    }
                    St::IV => {
                        let (b, a) = (e.iv.remove(0), e.iv.remove(0));
                        e.b.insert(0, a == b);
                    }
                    St::FV => {
                        let (b, a) = (e.fv.remove(0), e.fv.remove(0));
                        e.b.insert(0, a.len() == b.len() && a.iter().zip(b.iter()).all(|(x, y)| feq(*x, *y)));
                    }
                    St::Code | St::Exec => {
                        // operands are kept (pinned by pushr's tests); equality is structural, but
                        // two items that PRINT alike are a don't-care (the documented comparison
                        // is on the printed form)
                        let (a, b) = if t == St::Code { (&pre.c[0], &pre.c[1]) } else { (&pre.e[0], &pre.e[1]) };
                        let structural = a == b;
                        let printed = a.printed() == b.printed();
                        let mut e1 = e.clone();
                        e1.b.insert(0, structural);
                        if structural == printed {
                            return mism(&e1, post);
                        }
                        let mut e2 = e.clone();
                        e2.b.insert(0, printed);
                        return any_of(&[e1, e2], post);
                    }
                    _ => unreachable!(),
                }
                return mism(&e, post);
            }
            _ => {}
        }
    }

    match name {
        "NOOP" | "CODE.NOOP" => mism(&e, post),
        // ---- BOOLEAN -----------------------------------------------------------------------
        "BOOLEAN.AND" | "BOOLEAN.OR" => {
            let (b, a) = (e.b.remove(0), e.b.remove(0));
            e.b.insert(0, if name == "BOOLEAN.AND" { a && b } else { a || b });
            mism(&e, post)
        }
        "BOOLEAN.NOT" => {
            let a = e.b.remove(0);
            e.b.insert(0, !a);
            mism(&e, post)
        }
        "BOOLEAN.FROMFLOAT" | "BOOLEAN.FROMINTEGER" => {
            // doc: "Pushes FALSE if the top FLOAT/INTEGER is 0, or TRUE otherwise" (Push3: pops it)
            let zero = if name == "BOOLEAN.FROMFLOAT" { fl(e.f.remove(0)) == 0.0 } else { e.i.remove(0) == 0 };
            e.b.insert(0, !zero);
            if e == *post {
                return Ok(());
            }
            // recogniser for the behaviour pinned by boolean_from_*_compares_to_zero
            let mut k = pre.clone();
            k.b.insert(0, zero);
            if k == *post {
                return Err(("inverted,operand-kept".into(), format!("pushes (x == 0) and keeps the operand: {}", e.diff_text(post))));
            }
            mism(&e, post)
        }
        "BOOLEAN.RAND" => {
            if post.b.len() != pre.b.len() + 1 {
                return bad("BOOLEAN.RAND pushed no boolean".into());
            }
            e.b.insert(0, post.b[0]);
            mism(&e, post)
        }
        // ---- INTEGER -----------------------------------------------------------------------
        "INTEGER.+" | "INTEGER.-" | "INTEGER.*" | "INTEGER./" | "INTEGER.%" => {
            let (b, a) = (e.i.remove(0) as i64, e.i.remove(0) as i64);
            let exact: i64 = match suf {
                "+" => a + b,
                "-" => a - b,
                "*" => a * b,
                "/" => a / b, // truncation toward zero (b != 0 by the guard)
                _ => a.rem_euclid(b).wrapping_add(if b < 0 && a.rem_euclid(b) != 0 { b } else { 0 }), // floored modulus
            };
            if exact < i32::MIN as i64 || exact > i32::MAX as i64 {
                // unrepresentable: any in-type value, shapes as documented
                if post.i.len() != e.i.len() + 1 {
                    return Err(("overflow-shape".into(), format!("unrepresentable result must still leave ONE integer: {}", e.diff_text(post))));
                }
                e.i.insert(0, post.i[0]);
                return match mism(&e, post) {
                    Ok(()) => Ok(()),
                    Err((_, t)) => Err(("overflow-shape".into(), t)),
                };
            }
            let mut ex = e.clone();
            ex.i.insert(0, exact as i32);
            if ex == *post {
                return Ok(());
            }
            if suf == "%" {
                // recogniser: truncated remainder (sign of the dividend), pinned by integer_modulus_pushes_result
                let mut k = e.clone();
                k.i.insert(0, (a % b) as i32);
                if k == *post {
                    return Err(("truncated-remainder".into(), format!("{} % {} gave {} (documented floored modulus: {})", a, b, a % b, exact)));
                }
            }
            mism(&ex, post)
        }
        "INTEGER.<" | "INTEGER.>" => {
            let (b, a) = (e.i.remove(0), e.i.remove(0));
            e.b.insert(0, if suf == "<" { a < b } else { a > b });
            mism(&e, post)
        }
        "INTEGER.ABS" => {
            let a = e.i.remove(0);
            if a == i32::MIN {
                if post.i.len() != e.i.len() + 1 {
                    return bad(format!("ABS of MIN must still leave one integer: {}", e.diff_text(post)));
                }
                e.i.insert(0, post.i[0]);
                return mism(&e, post);
            }
            e.i.insert(0, a.abs());
            mism(&e, post)
        }
        "INTEGER.MAX" | "INTEGER.MIN" => {
            let (b, a) = (e.i.remove(0), e.i.remove(0));
            e.i.insert(0, if suf == "MAX" { a.max(b) } else { a.min(b) });
            mism(&e, post)
        }
        "INTEGER.FROMBOOLEAN" => {
            let a = e.b.remove(0);
            e.i.insert(0, if a { 1 } else { 0 });
            mism(&e, post)
        }
        "INTEGER.FROMFLOAT" => {
            let a = fl(e.f.remove(0));
            let t = a.trunc();
            if a.is_nan() || t < -2147483648.0 || t >= 2147483648.0 {
                if post.i.len() != e.i.len() + 1 {
                    return bad(format!("out-of-range conversion must still leave one integer: {}", e.diff_text(post)));
                }
                e.i.insert(0, post.i[0]);
            } else {
                e.i.insert(0, t as i32);
            }
            mism(&e, post)
        }
        "INTEGER.RAND" => {
            if post.i.len() != pre.i.len() + 1 {
                return bad("INTEGER.RAND with min < max pushed no integer".into());
            }
            {
                let v = post.i[0];
                if v < pre.cfg.min_random_integer || v >= pre.cfg.max_random_integer {
                    return bad(format!("INTEGER.RAND produced {} outside [{}, {})", v, pre.cfg.min_random_integer, pre.cfg.max_random_integer));
                }
                e.i.insert(0, v);
            }
            mism(&e, post)
        }
        // ---- FLOAT -------------------------------------------------------------------------
        "FLOAT.+" | "FLOAT.-" | "FLOAT.*" | "FLOAT./" => {
            let (b, a) = (fl(e.f.remove(0)), fl(e.f.remove(0)));
            let r = match suf {
                "+" => a + b,
                "-" => a - b,
                "*" => a * b,
                _ => a / b,
            };
            e.f.insert(0, fb(r));
            mism(&e, post)
        }
        "FLOAT.%" => {
            let (b, a) = (fl(e.f.remove(0)), fl(e.f.remove(0)));
            // documented: floored modulus
            let t = a % b;
            let floored = if t != 0.0 && ((t < 0.0) != (b < 0.0)) { t + b } else { t };
            let mut ex = e.clone();
            ex.f.insert(0, fb(floored));
            if ex == *post {
                return Ok(());
            }
            let mut k = e.clone();
            k.f.insert(0, fb(t));
            if k == *post {
                return Err(("truncated-remainder".into(), format!("{} % {} gave {} (documented floored modulus: {})", a, b, t, floored)));
            }
            // rounding of t + b may differ by an ulp from another formulation of the floored modulus
            if post.f.len() == ex.f.len() && close_ulps(fl(post.f[0]), floored, 2) {
                ex.f[0] = post.f[0];
                return mism(&ex, post);
            }
            mism(&ex, post)
        }
        "FLOAT.<" | "FLOAT.>" => {
            let (b, a) = (fl(e.f.remove(0)), fl(e.f.remove(0)));
            e.b.insert(0, if suf == "<" { a < b } else { a > b });
            mism(&e, post)
        }
        "FLOAT.MAX" | "FLOAT.MIN" => {
            let (bb, ab) = (e.f.remove(0), e.f.remove(0));
            let (b, a) = (fl(bb), fl(ab));
            if a.is_nan() || b.is_nan() || a == b {
                let mut e1 = e.clone();
                e1.f.insert(0, ab);
                let mut e2 = e.clone();
                e2.f.insert(0, bb);
                return any_of(&[e1, e2], post);
            }
            let pick_a = if suf == "MAX" { a > b } else { a < b };
            e.f.insert(0, if pick_a { ab } else { bb });
            mism(&e, post)
        }
        "FLOAT.SIN" | "FLOAT.COS" | "FLOAT.TAN" | "FLOAT.EXP" => {
            let a = fl(e.f.remove(0));
            let r = match suf {
                "SIN" => a.sin(),
                "COS" => a.cos(),
                "TAN" => a.tan(),
                _ => a.exp(),
            };
            if post.f.len() == e.f.len() + 1 && close_ulps(fl(post.f[0]), r, 2) {
                e.f.insert(0, post.f[0]);
            } else {
                e.f.insert(0, fb(r));
            }
            mism(&e, post)
        }
        "FLOAT.FROMBOOLEAN" => {
            let a = e.b.remove(0);
            e.f.insert(0, fb(if a { 1.0 } else { 0.0 }));
            mism(&e, post)
        }
        "FLOAT.FROMINTEGER" => {
            let a = e.i.remove(0);
            e.f.insert(0, fb(a as f32));
            mism(&e, post)
        }
        "FLOAT.RAND" => {
            if post.f.len() != pre.f.len() + 1 {
                return bad("FLOAT.RAND with finite min < max pushed no float".into());
            }
            {
                let v = fl(post.f[0]);
                let (lo, hi) = (fl(pre.cfg.min_random_float), fl(pre.cfg.max_random_float));
                if !(v >= lo && v < hi) {
                    return bad(format!("FLOAT.RAND produced {} outside [{}, {})", v, lo, hi));
                }
                e.f.insert(0, post.f[0]);
            }
            mism(&e, post)
        }
        // ---- NAME --------------------------------------------------------------------------
        "NAME.CAT" => {
            let (b, a) = (e.n.remove(0), e.n.remove(0));
            e.n.insert(0, format!("{} {}", a, b));
            mism(&e, post)
        }
        "NAME.QUOTE" => {
            e.q = true;
            mism(&e, post)
        }
        "NAME.SEND" => {
            e.s = true;
            mism(&e, post)
        }
        "NAME.RAND" | "NAME.RANDBOUNDNAME" => {
            if post.n.len() == pre.n.len() + 1 {
                if name == "NAME.RANDBOUNDNAME" && !pre.nb.is_empty() && !pre.nb.contains_key(&post.n[0]) {
                    return bad(format!("NAME.RANDBOUNDNAME pushed {:?}, which is not one of the bound names {:?}", post.n[0], pre.nb.keys().collect::<Vec<_>>()));
                }
                e.n.insert(0, post.n[0].clone());
            } else {
                return bad("no name pushed".into());
            }
            mism(&e, post)
        }
        // ---- CODE --------------------------------------------------------------------------
        "CODE.APPEND" => {
            let (t, s) = (e.c.remove(0), e.c.remove(0));
            if post.c.len() != e.c.len() + 1 || !post.c[0].is_list() {
                return bad(format!("CODE.APPEND must leave one list: {}", e.diff_text(post)));
            }
            if atoms_sorted(&[&post.c[0]]) != atoms_sorted(&[&t, &s]) {
                return Err(("atoms-lost".into(), format!("CODE.APPEND of {} and {} gave {}", t, s, post.c[0])));
            }
            e.c.insert(0, post.c[0].clone());
            mism(&e, post)
        }
        "CODE.ATOM" => {
            e.b.insert(0, !e.c[0].is_list());
            mism(&e, post)
        }
        "CODE.NULL" => {
            e.b.insert(0, e.c[0] == SItem::List(vec![]));
            mism(&e, post)
        }
        "CODE.CAR" => {
            let t = e.c.remove(0);
            if let SItem::List(v) = t {
                if v.is_empty() {
                    // the docs are silent about the empty list: removed, or left alone
                    return any_of(&[e, pre.clone()], post);
                }
                e.c.insert(0, v[0].clone());
            }
            mism(&e, post)
        }
        "CODE.CDR" => {
            let t = e.c.remove(0);
            match t {
                SItem::List(mut v) => {
                    if !v.is_empty() {
                        v.remove(0);
                    }
                    e.c.insert(0, SItem::List(v));
                }
                _ => e.c.insert(0, SItem::List(vec![])),
            }
            mism(&e, post)
        }
        "CODE.CONS" => {
            let (t, s) = (e.c.remove(0), e.c.remove(0));
            let mut v = vec![s];
            match t {
                SItem::List(tv) => v.extend(tv),
                o => v.push(o),
            }
            e.c.insert(0, SItem::List(v));
            match mism(&e, post) {
                Ok(()) => Ok(()),
                Err((_, text)) => {
                    // classify: atoms lost?
                    if post.c.len() == e.c.len() && atoms_sorted(&[&post.c[0]]) != atoms_sorted(&[&e.c[0]]) {
                        Err(("atoms-lost".into(), text))
                    } else {
                        Err(("mismatch".into(), text))
                    }
                }
            }
        }
        "CODE.CONTAINER" => {
            // documented: the smallest sub-list that contains (and is not) the FIRST instance in
            // depth-first order, i.e. the list whose direct element that instance is
            let (t, s) = (&pre.c[0], &pre.c[1]);
            let want = if t == s { None } else { first_container(t, s) };
            e.c.insert(0, want.unwrap_or(SItem::List(vec![])));
            mism(&e, post)
        }
        "CODE.CONTAINS" => {
            let (t, s) = (&pre.c[0], &pre.c[1]);
            let mut pts = vec![];
            t.preorder(&mut pts);
            let proper = pts.iter().skip(1).any(|p| *p == s);
            let mut e1 = e.clone();
            e1.b.insert(0, proper || t == s);
            if t == s {
                // "contains itself" is not settled by the documentation
                let mut e2 = e.clone();
                e2.b.insert(0, false);
                return any_of(&[e1, e2], post);
            }
            mism(&e1, post)
        }
        "CODE.MEMBER" => {
            // documentation is a copy of CONTAINS'; only what every reading shares is judged
            let (t, s) = (&pre.c[0], &pre.c[1]);
            if post.b.len() != pre.b.len() + 1 {
                return bad("CODE.MEMBER pushed no boolean".into());
            }
            let got = post.b[0];
            e.b.insert(0, got);
            let direct = match s {
                SItem::List(v) => v.iter().any(|x| x == t),
                _ => false,
            };
            let ta = atoms_sorted(&[t]);
            let sa = atoms_sorted(&[s]);
            if direct && !got {
                return bad(format!("{} is a direct element of {} but CODE.MEMBER says FALSE", t, s));
            }
            if !ta.is_empty() && !sa.is_empty() && ta.iter().all(|a| !sa.contains(a)) && sa.iter().all(|a| !ta.contains(a)) && got {
                return bad(format!("{} and {} share no atom but CODE.MEMBER says TRUE", t, s));
            }
            mism(&e, post)
        }
        "CODE.DEFINITION" => {
            let nm = e.n.remove(0);
            let v = e.nb.get(&nm).unwrap().clone();
            e.c.insert(0, v);
            mism(&e, post)
        }
        "CODE.DISCREPANCY" => {
            if post.i.len() != pre.i.len() + 1 {
                return bad("CODE.DISCREPANCY pushed no integer".into());
            }
            let d = post.i[0];
            e.i.insert(0, d);
            if d < 0 {
                return bad(format!("negative discrepancy {}", d));
            }
            if pre.c[0] == pre.c[1] && d != 0 {
                return bad(format!("discrepancy of identical items is {}", d));
            }
            mism(&e, post)
        }
        "CODE.DO" => {
            e.e.insert(0, SItem::Instr("CODE.POP".into()));
            e.e.insert(0, e.c[0].clone());
            mism(&e, post)
        }
        "CODE.DO*" => {
            e.e.insert(0, e.c[0].clone());
            e.e.insert(0, SItem::Instr("CODE.POP".into()));
            mism(&e, post)
        }
        "CODE.LOOP" | "EXEC.LOOP" => {
            let body = if name == "CODE.LOOP" { e.c.remove(0) } else { e.e.remove(0) };
            let (cur, dest) = e.x[0];
            if cur < dest {
                e.e.insert(0, SItem::List(vec![SItem::Instr("INDEX.INCREASE".into()), SItem::Instr(name.into()), body.clone()]));
                e.e.insert(0, body);
            } else {
                e.x.remove(0);
            }
            mism(&e, post)
        }
        "CODE.EXTRACT" => {
            let idx = e.i.remove(0) as i64;
            let mut pts = vec![];
            pre.c[0].preorder(&mut pts);
            let n = pts.len() as i64;
            let mut e1 = e.clone();
            e1.c.insert(0, pts[idx.rem_euclid(n) as usize].clone());
            let mut e2 = e.clone();
            e2.c.insert(0, pts[(idx.abs() % n) as usize].clone());
            any_of(&[e1, e2], post)
        }
        "CODE.FROMBOOLEAN" => {
            let v = e.b.remove(0);
            e.c.insert(0, SItem::Bool(v));
            mism(&e, post)
        }
        "CODE.FROMFLOAT" => {
            let v = e.f.remove(0);
            e.c.insert(0, SItem::Float(v));
            mism(&e, post)
        }
        "CODE.FROMINTEGER" => {
            let v = e.i.remove(0);
            e.c.insert(0, SItem::Int(v));
            mism(&e, post)
        }
        "CODE.FROMNAME" => {
            let v = e.n.remove(0);
            e.c.insert(0, SItem::Name(v));
            mism(&e, post)
        }
        "CODE.IF" => {
            let (t, s) = (e.c.remove(0), e.c.remove(0));
            let b = e.b.remove(0);
            e.e.insert(0, if b { s } else { t });
            mism(&e, post)
        }
        "CODE.INSERT" => {
            let idx = e.i.remove(0) as i64;
            let n = pre.c[0].points() as i64;
            let ins = pre.c[1].clone();
            let mut alts = vec![];
            for k in [idx.rem_euclid(n), idx.abs() % n] {
                let mut x = e.clone();
                let mut kk = k as usize;
                x.c[0].replace_point(&mut kk, &ins);
                alts.push(x);
            }
            if alts.iter().any(|a| a == post) {
                return Ok(());
            }
            if (idx < 0 || idx >= n) && e == *post {
                return Err(("index-not-normalised".into(), format!("index {} on an item of {} points is a no-op instead of being taken modulo the size", idx, n)));
            }
            mism(&alts[0], post)
        }
        "CODE.LENGTH" => {
            let l = match &e.c[0] {
                SItem::List(v) => v.len() as i32,
                _ => 1,
            };
            e.i.insert(0, l);
            mism(&e, post)
        }
        "CODE.SIZE" => {
            let l = e.c[0].points() as i32;
            e.i.insert(0, l);
            mism(&e, post)
        }
        "CODE.LIST" => {
            let l = SItem::List(vec![e.c[0].clone(), e.c[1].clone()]);
            e.c.insert(0, l);
            mism(&e, post)
        }
        "CODE.NTH" => {
            let idx = e.i.remove(0) as i64;
            let top = pre.c[0].clone();
            let elems: Vec<SItem> = match &top {
                SItem::List(v) => v.clone(),
                o => vec![o.clone()],
            };
            let mut alts = vec![];
            if elems.is_empty() {
                let mut x = e.clone();
                x.c.insert(0, SItem::List(vec![]));
                alts.push(x);
            } else {
                let n = elems.len() as i64;
                for k in [idx.rem_euclid(n), idx.abs() % n] {
                    let mut x = e.clone();
                    x.c.insert(0, elems[k as usize].clone());
                    alts.push(x);
                }
            }
            if alts.iter().any(|a| a == post) {
                return Ok(());
            }
            // recogniser: behaviour pinned by code_nth_ignores_nested_lists (modulo length+1,
            // 1-based, 0 => the whole item)
            let shallow = match &top {
                SItem::List(v) => v.len() as i64 + 1,
                _ => 1,
            };
            let k = idx.rem_euclid(shallow);
            let mut pin = e.clone();
            if k == 0 {
                pin.c.insert(0, top.clone());
            } else if let SItem::List(v) = &top {
                pin.c.insert(0, v[(k - 1) as usize].clone());
            }
            if pin == *post {
                return Err(("modulo-length-plus-one".into(), format!("n={} on {} gave {} (documented: element n mod length)", idx, top, post.c[0])));
            }
            mism(&alts[0], post)
        }
        "CODE.POSITION" => {
            let (t, s) = (&pre.c[0], &pre.c[1]);
            let mut pts = vec![];
            t.preorder(&mut pts);
            let occ: Vec<i32> = pts.iter().enumerate().filter(|(_, p)| **p == s).map(|(k, _)| k as i32).collect();
            if post.i.len() != pre.i.len() + 1 {
                return bad("CODE.POSITION pushed no integer".into());
            }
            let got = post.i[0];
            e.i.insert(0, got);
            if occ.is_empty() {
                if got != -1 {
                    return bad(format!("{} does not occur in {} but position {} was reported", s, t, got));
                }
            } else if !occ.contains(&got) {
                return bad(format!("{} occurs in {} at points {:?} but position {} was reported", s, t, occ, got));
            }
            mism(&e, post)
        }
        "CODE.PRINT" => {
            let txt = e.c.iter().map(|x| x.printed()).collect::<Vec<_>>().join(" ");
            e.n.insert(0, txt.trim().to_string());
            mism(&e, post)
        }
        "CODE.QUOTE" => {
            let v = e.e.remove(0);
            e.c.insert(0, v);
            mism(&e, post)
        }
        "CODE.RAND" => {
            let n = e.i.remove(0) as i64;
            let limit = n.abs().min((pre.cfg.max_points_in_random_expressions as i64).abs());
            if post.c.len() != pre.c.len() + 1 {
                return bad(format!("CODE.RAND with limit {} pushed nothing", limit));
            }
            let pts = post.c[0].points() as i64;
            if pts < 1 || pts > limit - 1 {
                return bad(format!("CODE.RAND with limit {} produced {} points", limit, pts));
            }
            e.c.insert(0, post.c[0].clone());
            mism(&e, post)
        }
        "CODE.SUBST" => {
            let (target, sub, pat) = (e.c.remove(0), e.c.remove(0), e.c.remove(0));
            e.c.insert(0, subst(&target, &pat, &sub));
            mism(&e, post)
        }
        // ---- EXEC --------------------------------------------------------------------------
        "EXEC.CMD" => {
            let n = e.i.remove(0) as usize;
            for _ in 0..n + 1 {
                e.n.remove(0);
            }
            mism(&e, post)
        }
        "EXEC.IF" => {
            let (a, b) = (e.e.remove(0), e.e.remove(0));
            let c = e.b.remove(0);
            e.e.insert(0, if c { a } else { b });
            mism(&e, post)
        }
        "EXEC.K" => {
            e.e.remove(1);
            mism(&e, post)
        }
        "EXEC.S" => {
            let (a, b, c) = (e.e.remove(0), e.e.remove(0), e.e.remove(0));
            e.e.insert(0, SItem::List(vec![b, c.clone()]));
            e.e.insert(0, c);
            e.e.insert(0, a);
            mism(&e, post)
        }
        "EXEC.Y" => {
            let t = e.e[0].clone();
            e.e.insert(1, SItem::List(vec![SItem::Instr("EXEC.Y".into()), t]));
            mism(&e, post)
        }
        // ---- INDEX -------------------------------------------------------------------------
        "INDEX.DEFINE" => {
            let n = e.i.remove(0);
            e.x.insert(0, (0, n.max(0) as usize));
            mism(&e, post)
        }
        "INDEX.CURRENT" => {
            e.i.insert(0, e.x[0].0 as i32);
            mism(&e, post)
        }
        "INDEX.DESTINATION" => {
            e.i.insert(0, e.x[0].1 as i32);
            mism(&e, post)
        }
        "INDEX.INCREASE" => {
            if e.x[0].0 < e.x[0].1 {
                e.x[0].0 += 1;
            }
            mism(&e, post)
        }
        "INDEX.POP" => {
            if !e.x.is_empty() {
                e.x.remove(0);
            }
            mism(&e, post)
        }
        "INDEX.FLUSH" => {
            e.x.clear();
            mism(&e, post)
        }
        // ---- vectors: overlap rule ----------------------------------------------------------
        "BOOLVECTOR.AND" | "BOOLVECTOR.OR" => {
            let (t, mut s) = (e.bv.remove(0), e.bv.remove(0));
            let off = e.i.remove(0) as i64;
            for (k, tv) in t.iter().enumerate() {
                let j = k as i64 + off;
                if j >= 0 && (j as usize) < s.len() {
                    let j = j as usize;
                    s[j] = if suf == "AND" { s[j] && *tv } else { s[j] || *tv };
                }
            }
            e.bv.insert(0, s);
            mism(&e, post)
        }
        "BOOLVECTOR.NOT" => {
            let mut t = e.bv.remove(0);
            let off = e.i.remove(0) as i64;
            let n = t.len();
            for k in 0..n {
                let j = k as i64 + off;
                if j >= 0 && (j as usize) < n {
                    t[j as usize] = !t[j as usize];
                }
            }
            e.bv.insert(0, t);
            mism(&e, post)
        }
        "INTVECTOR.+" | "INTVECTOR.-" | "INTVECTOR.*" | "INTVECTOR./" => {
            let (t, s) = (e.iv.remove(0), e.iv.remove(0));
            let off = e.i.remove(0) as i64;
            let mut r: Vec<i64> = s.iter().map(|x| *x as i64).collect();
            let mut zero = false;
            for (k, tv) in t.iter().enumerate() {
                let j = k as i64 + off;
                if j >= 0 && (j as usize) < s.len() {
                    let j = j as usize;
                    let (a, b) = (r[j], *tv as i64);
                    r[j] = match suf {
                        "+" => a + b,
                        "-" => a - b,
                        "*" => a * b,
                        _ => {
                            if b == 0 {
                                zero = true;
                                a
                            } else {
                                a / b
                            }
                        }
                    };
                }
            }
            if zero {
                // "acts as NOOP": unchanged, or operands consumed and nothing pushed
                return any_of(&[pre.clone(), e], post);
            }
            if post.iv.len() != e.iv.len() + 1 || post.iv[0].len() != s.len() {
                return bad(format!("result must be one vector of the second operand's length {}: {}", s.len(), e.diff_text(post)));
            }
            let mut out = vec![];
            for (j, x) in r.iter().enumerate() {
                if *x < i32::MIN as i64 || *x > i32::MAX as i64 {
                    out.push(post.iv[0][j]); // unrepresentable: any in-type value
                } else {
                    out.push(*x as i32);
                }
            }
            e.iv.insert(0, out);
            mism(&e, post)
        }
        "FLOATVECTOR.+" | "FLOATVECTOR.-" | "FLOATVECTOR.*" | "FLOATVECTOR./" => {
            let (t, mut s) = (e.fv.remove(0), e.fv.remove(0));
            let off = e.i.remove(0) as i64;
            let mut zero = false;
            for (k, tv) in t.iter().enumerate() {
                let j = k as i64 + off;
                if j >= 0 && (j as usize) < s.len() {
                    let j = j as usize;
                    let (a, b) = (fl(s[j]), fl(*tv));
                    s[j] = fb(match suf {
                        "+" => a + b,
                        "-" => a - b,
                        "*" => a * b,
                        _ => {
                            if b == 0.0 {
                                zero = true;
                                a
                            } else {
                                a / b
                            }
                        }
                    });
                }
            }
            if zero {
                return any_of(&[pre.clone(), e], post);
            }
            e.fv.insert(0, s);
            mism(&e, post)
        }
        "BOOLVECTOR.GET" => {
            let k = clamp(e.i.remove(0), e.bv[0].len());
            e.b.insert(0, e.bv[0][k]);
            mism(&e, post)
        }
        "INTVECTOR.GET" => {
            let k = clamp(e.i.remove(0), e.iv[0].len());
            e.i.insert(0, e.iv[0][k]);
            mism(&e, post)
        }
        "FLOATVECTOR.GET" => {
            let k = clamp(e.i.remove(0), e.fv[0].len());
            e.f.insert(0, e.fv[0][k]);
            mism(&e, post)
        }
        "BOOLVECTOR.SET" => {
            let k = clamp(e.i.remove(0), e.bv[0].len());
            let v = e.b.remove(0);
            e.bv[0][k] = v;
            mism(&e, post)
        }
        "INTVECTOR.SET" => {
            let k = clamp(e.i.remove(0), e.iv[0].len());
            let v = e.i.remove(0);
            e.iv[0][k] = v;
            mism(&e, post)
        }
        "FLOATVECTOR.SET" => {
            let k = clamp(e.i.remove(0), e.fv[0].len());
            let v = e.f.remove(0);
            e.fv[0][k] = v;
            mism(&e, post)
        }
        "BOOLVECTOR.ONES" | "BOOLVECTOR.ZEROS" => {
            let n = e.i.remove(0) as usize;
            e.bv.insert(0, vec![suf == "ONES"; n]);
            mism(&e, post)
        }
        "INTVECTOR.ONES" | "INTVECTOR.ZEROS" => {
            let n = e.i.remove(0) as usize;
            e.iv.insert(0, vec![if suf == "ONES" { 1 } else { 0 }; n]);
            mism(&e, post)
        }
        "FLOATVECTOR.ONES" | "FLOATVECTOR.ZEROS" => {
            let n = e.i.remove(0) as usize;
            e.fv.insert(0, vec![fb(if suf == "ONES" { 1.0 } else { 0.0 }); n]);
            mism(&e, post)
        }
        "BOOLVECTOR.LENGTH" => {
            e.i.insert(0, e.bv[0].len() as i32);
            mism(&e, post)
        }
        "INTVECTOR.LENGTH" => {
            e.i.insert(0, e.iv[0].len() as i32);
            mism(&e, post)
        }
        "FLOATVECTOR.LENGTH" => {
            e.i.insert(0, e.fv[0].len() as i32);
            mism(&e, post)
        }
        "BOOLVECTOR.COUNT" => {
            e.i.insert(0, e.bv[0].iter().filter(|b| **b).count() as i32);
            mism(&e, post)
        }
        "INTVECTOR.SUM" => {
            let s: i64 = e.iv[0].iter().map(|x| *x as i64).sum();
            let mut partial_overflow = false;
            let mut acc: i64 = 0;
            for x in &e.iv[0] {
                acc += *x as i64;
                if acc < i32::MIN as i64 || acc > i32::MAX as i64 {
                    partial_overflow = true;
                }
            }
            if partial_overflow || s < i32::MIN as i64 || s > i32::MAX as i64 {
                if post.i.len() != e.i.len() + 1 {
                    return Err(("overflow-shape".into(), format!("unrepresentable sum must still leave one integer: {}", e.diff_text(post))));
                }
                e.i.insert(0, post.i[0]);
                return match mism(&e, post) {
                    Ok(()) => Ok(()),
                    Err((_, t)) => Err(("overflow-shape".into(), t)),
                };
            }
            e.i.insert(0, s as i32);
            mism(&e, post)
        }
        "FLOATVECTOR.SUM" => {
            let s: f32 = e.fv[0].iter().map(|x| fl(*x)).sum();
            e.f.insert(0, fb(s));
            if post.f.len() == e.f.len() && close_ulps(fl(post.f[0]), s, 4) {
                e.f[0] = post.f[0];
            }
            mism(&e, post)
        }
        "INTVECTOR.MEAN" => {
            let s: i64 = e.iv[0].iter().map(|x| *x as i64).sum();
            let n = e.iv[0].len();
            if post.f.len() != e.f.len() + 1 {
                return bad("no mean pushed".into());
            }
            let got = fl(post.f[0]);
            let want = s as f64 / n as f64;
            let ok = if n == 0 {
                got.is_nan()
            } else {
                ((got as f64) - want).abs() <= 1e-6 * want.abs().max(1.0) * 4.0
            };
            if !ok {
                return bad(format!("mean of {:?} is {} but {} was pushed", e.iv[0], want, got));
            }
            e.f.insert(0, post.f[0]);
            mism(&e, post)
        }
        "FLOATVECTOR.MEAN" => {
            let s: f32 = e.fv[0].iter().map(|x| fl(*x)).sum();
            let m = s / e.fv[0].len() as f32;
            e.f.insert(0, fb(m));
            if post.f.len() == e.f.len() && close_ulps(fl(post.f[0]), m, 4) {
                e.f[0] = post.f[0];
            }
            mism(&e, post)
        }
        "BOOLVECTOR.SORT*ASC" | "BOOLVECTOR.SORT*DESC" => {
            e.bv[0].sort();
            if suf == "SORT*DESC" {
                e.bv[0].reverse();
            }
            mism(&e, post)
        }
        "INTVECTOR.SORT*ASC" | "INTVECTOR.SORT*DESC" => {
            e.iv[0].sort();
            if suf == "SORT*DESC" {
                e.iv[0].reverse();
            }
            mism(&e, post)
        }
        "FLOATVECTOR.SORT*ASC" | "FLOATVECTOR.SORT*DESC" => {
            // permutation of the operand; the non-NaN elements in the requested order (NaNs may
            // sit anywhere consistent; -0.0 and 0.0 compare equal)
            if post.fv.is_empty() {
                return bad("vector vanished".into());
            }
            let got = post.fv[0].clone();
            let mut a = e.fv[0].clone();
            let mut b = got.clone();
            a.sort();
            b.sort();
            if a != b {
                return bad(format!("sorted vector is not a permutation of the operand: {:?} -> {:?}", e.fv[0], got));
            }
            let nn: Vec<f32> = got.iter().map(|x| fl(*x)).filter(|x| !x.is_nan()).collect();
            for w in nn.windows(2) {
                let ok = if suf == "SORT*ASC" { w[0] <= w[1] } else { w[0] >= w[1] };
                if !ok {
                    return bad(format!("not sorted: {:?}", nn));
                }
            }
            e.fv[0] = got;
            mism(&e, post)
        }
        "BOOLVECTOR.ROTATE" => {
            let v = e.b.remove(0);
            if !e.bv[0].is_empty() {
                e.bv[0].remove(0);
                e.bv[0].push(v);
            }
            mism(&e, post)
        }
        "INTVECTOR.ROTATE" => {
            let v = e.i.remove(0);
            if !e.iv[0].is_empty() {
                e.iv[0].remove(0);
                e.iv[0].push(v);
            }
            mism(&e, post)
        }
        "FLOATVECTOR.ROTATE" => {
            let v = e.f.remove(0);
            if !e.fv[0].is_empty() {
                e.fv[0].remove(0);
                e.fv[0].push(v);
            }
            mism(&e, post)
        }
        "INTVECTOR.APPEND" => {
            let v = e.i.remove(0);
            e.iv[0].push(v);
            mism(&e, post)
        }
        "FLOATVECTOR.APPEND" => {
            let v = e.f.remove(0);
            e.fv[0].push(v);
            mism(&e, post)
        }
        "INTVECTOR.REMOVE" => {
            let v = e.i.remove(0);
            e.iv[0].retain(|x| *x != v);
            mism(&e, post)
        }
        "INTVECTOR.SET*INSERT" => {
            let v = e.i.remove(0);
            if e.iv.is_empty() {
                e.iv.push(vec![]);
            }
            if !e.iv[0].contains(&v) {
                e.iv[0].push(v);
            }
            mism(&e, post)
        }
        "INTVECTOR.CONTAINS" => {
            let v = e.i.remove(0);
            let a = e.iv.remove(0);
            e.b.insert(0, a.contains(&v));
            mism(&e, post)
        }
        "INTVECTOR.BOOLINDEX" => {
            let a = e.bv.remove(0);
            e.iv.insert(0, a.iter().enumerate().filter(|(_, b)| **b).map(|(k, _)| k as i32).collect());
            mism(&e, post)
        }
        "INTVECTOR.FROMINT" => {
            let n = e.i.remove(0);
            let k = (n as i64).min(e.i.len() as i64).max(0) as usize;
            let mut v: Vec<i32> = e.i.drain(0..k).collect();
            v.reverse();
            e.iv.insert(0, v);
            mism(&e, post)
        }
        "INTVECTOR.EMPTY" => {
            e.iv.insert(0, vec![]);
            mism(&e, post)
        }
        "FLOATVECTOR.EMPTY" => {
            e.fv.insert(0, vec![]);
            mism(&e, post)
        }
        "FLOATVECTOR.*SCALAR" => {
            let f = fl(e.f.remove(0));
            for x in e.fv[0].iter_mut() {
                *x = fb(fl(*x) * f);
            }
            mism(&e, post)
        }
        "FLOATVECTOR.SINE" => {
            let (a, x, phi) = (fl(e.f.remove(0)), fl(e.f.remove(0)), fl(e.f.remove(0)));
            let n = e.i.remove(0) as usize;
            if n == 0 {
                // nothing, or an empty vector
                let mut e2 = e.clone();
                e2.fv.insert(0, vec![]);
                return any_of(&[e2, e], post);
            }
            if post.fv.len() != e.fv.len() + 1 || post.fv[0].len() != n {
                return bad(format!("expected one vector of length {}: {}", n, e.diff_text(post)));
            }
            for k in 0..n {
                let arg = 2.0 * std::f32::consts::PI * x * k as f32 + phi;
                let want = a * arg.sin();
                let got = fl(post.fv[0][k]);
                let ok = if want == got {
                    true
                } else if want.is_nan() || got.is_nan() {
                    // a non-finite intermediate may or may not survive a different association
                    want.is_nan() == got.is_nan() || !arg.is_finite() || !(a * 1.0).is_finite()
                } else {
                    let ulp_arg = (arg.abs() * 1.2e-7).max(1e-7);
                    (got - want).abs() <= a.abs() * (8.0 * ulp_arg + 1e-5) + 1e-6
                };
                if !ok {
                    return bad(format!("SINE element {}: expected {} got {}", k, want, got));
                }
            }
            e.fv.insert(0, post.fv[0].clone());
            mism(&e, post)
        }
        "INTVECTOR.LOOP" => {
            let mut v = e.iv.remove(0);
            let body = e.e.remove(0);
            let first = v.remove(0);
            e.e.insert(0, SItem::List(vec![SItem::IV(v), SItem::Instr("INTVECTOR.LOOP".into()), body.clone()]));
            e.e.insert(0, body);
            e.i.insert(0, first);
            mism(&e, post)
        }
        "BOOLVECTOR.RAND" => {
            let n = e.i.remove(0);
            let sp = fl(e.f.remove(0));
            if post.bv.len() != e.bv.len() + 1 || post.bv[0].len() != n as usize {
                return bad(format!("BOOLVECTOR.RAND size {} sparsity {}: expected one vector of that length: {}", n, sp, e.diff_text(post)));
            }
            let ones = post.bv[0].iter().filter(|b| **b).count();
            if !true_count_ok(n as usize, sp, ones) {
                return bad(format!("BOOLVECTOR.RAND size {} sparsity {}: {} TRUE bits, expected the sparsity share {} (sparsity to two decimals, share to a neighbouring integer)", n, sp, ones, sp as f64 * n as f64));
            }
            e.bv.insert(0, post.bv[0].clone());
            mism(&e, post)
        }
        "INTVECTOR.RAND" => {
            let (n, hi, lo) = (e.i.remove(0), e.i.remove(0), e.i.remove(0));
            if post.iv.len() != e.iv.len() + 1 || post.iv[0].len() != n as usize {
                return bad(format!("INTVECTOR.RAND size {}: expected one vector of that length: {}", n, e.diff_text(post)));
            }
            if let Some(x) = post.iv[0].iter().find(|x| **x < lo || **x >= hi) {
                return bad(format!("INTVECTOR.RAND element {} outside [{}, {})", x, lo, hi));
            }
            e.iv.insert(0, post.iv[0].clone());
            mism(&e, post)
        }
        "FLOATVECTOR.RAND" => {
            let n = e.i.remove(0);
            let (_mean, _sd) = (e.f.remove(0), e.f.remove(0));
            if post.fv.len() != e.fv.len() + 1 || post.fv[0].len() != n as usize {
                return bad(format!("FLOATVECTOR.RAND size {}: expected one vector of that length: {}", n, e.diff_text(post)));
            }
            e.fv.insert(0, post.fv[0].clone());
            mism(&e, post)
        }
        // ---- LIST --------------------------------------------------------------------------
        "LIST.ADD" => {
            let ids = e.iv.remove(0);
            let items = load_items_ref(&mut e, &ids);
            e.c.insert(0, SItem::List(items));
            mism(&e, post)
        }
        "LIST.GET" => {
            let k = clamp(e.i.remove(0), e.c.len());
            let it = e.c[k].clone();
            e.e.insert(0, it);
            mism(&e, post)
        }
        "LIST.SET" => {
            let idx = e.i.remove(0);
            let k = clamp(idx, e.c.len());
            let ids = e.iv.remove(0);
            // the state with only the two operands taken (index and id vector), the members still on their stacks
            let operands_only = e.clone();
            let items = load_items_ref(&mut e, &ids);
            if !pre.c.is_empty() && k < e.c.len() {
                e.c[k] = SItem::List(items);
                return mism(&e, post);
            }
            // The guard fails: CODE is empty (no record is addressed), or the addressed position was itself
            // consumed as a list member. C10: the instruction "may at most have consumed operands it had already
            // taken" and "pushes nothing" - so the members are gone (what the pinned tree does) or still in place
            // (an implementation that tests first); nothing is pushed or replaced either way.
            any_of(&[e, operands_only], post)
        }
        "LIST.REMOVE" => {
            let idx = e.i.remove(0);
            if !e.c.is_empty() {
                let k = clamp(idx, e.c.len());
                e.c.remove(k);
            }
            mism(&e, post)
        }
        "LIST.BVAL" | "LIST.IVAL" | "LIST.FVAL" => {
            let n = e.i.remove(0) as i64;
            let k = clamp(e.i.remove(0), e.c.len());
            let kind = match suf {
                "BVAL" => 0,
                "IVAL" => 1,
                _ => 2,
            };
            let found = nth_typed(&e.c[k], kind, n);
            // a negative n addresses nothing: default (the code wraps it to a huge index)
            match (kind, found) {
                (0, Some(SItem::Bool(b))) => e.b.insert(0, b),
                (0, _) => e.b.insert(0, false),
                (1, Some(SItem::Int(v))) => e.i.insert(0, v),
                (1, _) => e.i.insert(0, 0),
                (_, Some(SItem::Float(v))) => e.f.insert(0, v),
                (_, _) => e.f.insert(0, fb(0.0)),
            }
            mism(&e, post)
        }
        "LIST.NEIGHBOR*IDS" => {
            let (size, index, dims) = (e.i.remove(0), e.i.remove(0), e.i.remove(0));
            let r = fl(e.f.remove(0));
            let (n, d, ix, rad) = neighbor_params(size, index, dims, r).unwrap();
            if (edge_len(n, d) as u64).checked_pow(d as u32).is_none() {
                return Ok(()); // hypercube larger than the address space: not judged
            }
            let (sure, dc) = neighbours_ref(n, d, ix, rad);
            if post.iv.len() != e.iv.len() + 1 {
                return bad("no neighbour vector pushed".into());
            }
            if let Err(t) = check_neighbour_vec(&post.iv[0], &sure, &dc) {
                return bad(format!("size {} dims {} index {} radius {}: {}", n, d, ix, rad, t));
            }
            e.iv.insert(0, post.iv[0].clone());
            mism(&e, post)
        }
        "LIST.NEIGHBOR*BVALS" | "LIST.NEIGHBOR*IVALS" | "LIST.NEIGHBOR*FVALS" => {
            let (position, size, index, dims) = (e.i.remove(0), e.i.remove(0), e.i.remove(0), e.i.remove(0));
            let r = fl(e.f.remove(0));
            let (n, d, ix, rad) = neighbor_params(size, index, dims, r).unwrap();
            if (edge_len(n, d) as u64).checked_pow(d as u32).is_none() {
                return Ok(());
            }
            let (sure, dc) = neighbours_ref(n, d, ix, rad);
            if !dc.is_empty() {
                return Ok(()); // a point exactly on the radius: membership is a don't-care
            }
            let kind = match suf {
                "NEIGHBOR*BVALS" => 0,
                "NEIGHBOR*IVALS" => 1,
                _ => 2,
            };
            let mut bres = vec![];
            let mut ires = vec![];
            let mut fres = vec![];
            for id in sure {
                if let Some(item) = pre.c.get(id as usize) {
                    match (kind, nth_typed(item, kind, position as i64)) {
                        (0, Some(SItem::Bool(b))) => bres.push(b),
                        (0, _) => bres.push(false),
                        (1, Some(SItem::Int(v))) => ires.push(v),
                        (1, _) => ires.push(0),
                        (_, Some(SItem::Float(v))) => fres.push(v),
                        (_, _) => fres.push(fb(0.0)),
                    }
                }
            }
            match kind {
                0 => e.bv.insert(0, bres),
                1 => e.iv.insert(0, ires),
                _ => e.fv.insert(0, fres),
            }
            mism(&e, post)
        }
        // ---- INPUT / OUTPUT ----------------------------------------------------------------
        "INPUT.AVAILABLE" => {
            e.b.insert(0, !e.inp.is_empty());
            mism(&e, post)
        }
        "INPUT.READ" => {
            let (h, b) = e.inp[0].clone();
            e.bv.insert(0, b);
            e.iv.insert(0, h);
            mism(&e, post)
        }
        "INPUT.GET" => {
            let k = clamp(e.i.remove(0), e.inp[0].1.len());
            e.b.insert(0, e.inp[0].1[k]);
            mism(&e, post)
        }
        "INPUT.NEXT" => {
            if !e.inp.is_empty() {
                e.inp.remove(0);
            }
            mism(&e, post)
        }
        "INPUT.STACKDEPTH" => {
            e.i.insert(0, e.inp.len() as i32);
            mism(&e, post)
        }
        "OUTPUT.STACKDEPTH" => {
            e.i.insert(0, e.out.len() as i32);
            mism(&e, post)
        }
        "OUTPUT.WRITE" => {
            let b = e.bv.remove(0);
            let h = e.iv.remove(0);
            if e.out.len() < OUTPUT_BUFFER_SIZE {
                e.out.push((h, b));
            }
            mism(&e, post)
        }
        "OUTPUT.FLUSH" => {
            e.out.clear();
            mism(&e, post)
        }
        // ---- GRAPH -------------------------------------------------------------------------
        "GRAPH.STACKDEPTH" => {
            e.i.insert(0, e.g.len() as i32);
            mism(&e, post)
        }
        "GRAPH.ADD" => {
            if e.g.len() < GRAPH_BUFFER_SIZE {
                e.g.insert(0, SGraph::default());
            }
            mism(&e, post)
        }
        "GRAPH.DUP" => {
            if e.g.len() < GRAPH_BUFFER_SIZE {
                let g = e.g[0].clone();
                e.g.insert(0, g);
            }
            mism(&e, post)
        }
        "GRAPH.NODE*ADD" => {
            let st = e.i.remove(0);
            if post.i.len() != e.i.len() + 1 {
                return bad("no node id pushed".into());
            }
            let id = post.i[0];
            if id <= 0 || pre.g.iter().any(|g| g.has_node(id as usize)) {
                return bad(format!("new node id {} is not fresh", id));
            }
            e.i.insert(0, id);
            e.g[0].nodes.push((id as usize, st));
            e.g[0].nodes.sort();
            mism(&e, post)
        }
        "GRAPH.NODE*GETSTATE" => {
            let id = e.i.remove(0);
            let st = e.g[0].state(id as usize).unwrap();
            e.i.insert(0, st);
            mism(&e, post)
        }
        "GRAPH.NODE*SETSTATE" => {
            let (st, id) = (e.i.remove(0), e.i.remove(0));
            if id > 0 {
                for n in e.g[0].nodes.iter_mut() {
                    if n.0 == id as usize {
                        n.1 = st;
                    }
                }
            }
            mism(&e, post)
        }
        "GRAPH.NODE*STATESWITCH" => {
            let ids = e.iv.remove(0);
            let sw = e.bv.remove(0);
            let (off_state, on_state) = (e.i.remove(0), e.i.remove(0));
            for k in 0..ids.len().min(sw.len()) {
                if ids[k] > 0 {
                    for n in e.g[0].nodes.iter_mut() {
                        if n.0 == ids[k] as usize {
                            n.1 = if sw[k] { on_state } else { off_state };
                        }
                    }
                }
            }
            mism(&e, post)
        }
        "GRAPH.NODES" => {
            let states = e.iv.remove(0);
            let g = e.g[0].clone();
            let want = filter_ids(&g, &states, g.nodes.iter().map(|(k, _)| *k));
            check_set_result(e, want, post, name)
        }
        "GRAPH.NODES*HISTORY" => {
            let pos = e.i.remove(0) as usize;
            let states = e.iv.remove(0);
            let g = e.g[pos].clone();
            let want = filter_ids(&g, &states, g.nodes.iter().map(|(k, _)| *k));
            check_set_result(e, want, post, name)
        }
        "GRAPH.NODE*HISTORY" => {
            let (pos, id) = (e.i.remove(0) as usize, e.i.remove(0) as usize);
            let st = e.g[pos].state(id).unwrap();
            e.i.insert(0, st);
            mism(&e, post)
        }
        "GRAPH.NODE*PREDECESSORS" | "GRAPH.NODE*SUCCESSORS" | "GRAPH.NODE*NEIGHBORS" => {
            let states = e.iv.remove(0);
            let id = e.i.remove(0) as usize;
            let g = e.g[0].clone();
            let preds: Vec<usize> = g.edges.iter().filter(|(d, _, _)| *d == id).map(|(_, o, _)| *o).collect();
            let succs: Vec<usize> = g.edges.iter().filter(|(_, o, _)| *o == id).map(|(d, _, _)| *d).collect();
            let ids: Vec<usize> = match suf {
                "NODE*PREDECESSORS" => preds,
                "NODE*SUCCESSORS" => succs,
                _ => preds.into_iter().chain(succs.into_iter()).collect(),
            };
            let want = filter_ids(&g, &states, ids.into_iter());
            check_set_result(e, want, post, name)
        }
        "GRAPH.EDGE*ADD" => {
            let w = e.f.remove(0);
            let (dest, origin) = (e.i.remove(0), e.i.remove(0));
            if dest > 0 && origin > 0 {
                let (d, o) = (dest as usize, origin as usize);
                if e.g[0].has_node(d) && e.g[0].has_node(o) && e.g[0].weight(o, d).is_none() {
                    e.g[0].edges.push((d, o, w));
                    e.g[0].edges.sort();
                }
            }
            mism(&e, post)
        }
        "GRAPH.EDGE*GETWEIGHT" => {
            let (dest, origin) = (e.i.remove(0) as usize, e.i.remove(0) as usize);
            let w = e.g[0].weight(origin, dest).unwrap();
            e.f.insert(0, w);
            mism(&e, post)
        }
        "GRAPH.EDGE*SETWEIGHT" => {
            let w = e.f.remove(0);
            let (dest, origin) = (e.i.remove(0), e.i.remove(0));
            if dest > 0 && origin > 0 {
                for ed in e.g[0].edges.iter_mut() {
                    if ed.0 == dest as usize && ed.1 == origin as usize {
                        ed.2 = w;
                    }
                }
                e.g[0].edges.sort();
            }
            mism(&e, post)
        }
        "GRAPH.EDGE*HISTORY" => {
            let pos = e.i.remove(0) as usize;
            let (dest, origin) = (e.i.remove(0) as usize, e.i.remove(0) as usize);
            let w = e.g[pos].weight(origin, dest).unwrap();
            e.f.insert(0, w);
            mism(&e, post)
        }
        "GRAPH.PRINT" | "GRAPH.PRINT*DIFF" => {
            // text content is not compared (HashMap iteration order); one name must be pushed
            if name == "GRAPH.PRINT*DIFF" && pre.g[0] == pre.g[1] && post == pre {
                return Ok(()); // only reachable with NaN weights (frame guard): don't-care
            }
            // +0.0 and -0.0 are the same number: two graphs that differ only in the sign of zero weights
            // may or may not have a textual diff (don't-care, like NaN; the stored weights are checked elsewhere)
            if name == "GRAPH.PRINT*DIFF" && post == pre {
                let (a, b) = (&pre.g[0], &pre.g[1]);
                let zero_only = a.nodes == b.nodes && a.edges.len() == b.edges.len() && a.edges.iter().zip(b.edges.iter()).all(|(x, y)| x.0 == y.0 && x.1 == y.1 && (x.2 == y.2 || (fl(x.2) == 0.0 && fl(y.2) == 0.0)));
                if zero_only {
                    return Ok(());
                }
            }
            if post.n.len() != pre.n.len() + 1 {
                return bad(format!("{} pushed no text", name));
            }
            e.n.insert(0, post.n[0].clone());
            mism(&e, post)
        }
        _ => Err(("no-reference".into(), format!("no reference semantics for {}", name))),
    }
}
