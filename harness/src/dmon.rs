//! D/F monitor: one instruction execution = one observed event (name, pre, post), judged by the
//! frame table (always) and by the reference model (when the instruction fires).

use crate::frame::{check_frame, frame};
use crate::mon::{panic_sig, step_named, StepObs};
use crate::out::Rec;
use crate::refm::check_fired;
use crate::snap::Snap;
use pushr::push::instructions::{InstructionCache, InstructionSet};
use pushr::push::state::PushState;

#[derive(Clone, Copy)]
pub struct Judge {
    pub frame: bool,
    pub reference: bool,
}

pub struct StepEvent {
    pub pre: Snap,
    pub post: Option<Snap>,
    pub obs: StepObs,
    pub fired: Option<bool>,
}

/// Execute `name` on `state` and judge the step. Violations are recorded under `prop` with
/// signature `<name>|<class>`.
pub fn judged_step(prop: &str, name: &str, state: &mut PushState, is: &mut InstructionSet, cache: &InstructionCache, rec: &mut Rec, j: Judge, ctxinfo: &str) -> StepEvent {
    let pre = Snap::of(state);
    let obs = step_named(state, is, cache, name);
    if let Some(p) = &obs.panic {
        rec.violation(prop, &format!("{}|panic|{}", name, panic_sig(p)), &format!("{} panicked: {} ; pre-state: {} ; {}", name, p, pre.summary(), ctxinfo), "");
        return StepEvent { pre, post: None, obs, fired: None };
    }
    let post = Snap::of(state);
    let mut fired = None;
    match frame(name) {
        None => {
            rec.violation(prop, &format!("{}|no-frame-row", name), &format!("registered instruction {} has no frame row (harness incomplete or new instruction)", name), "");
        }
        Some(fr) => {
            let f = fr.fires(&pre);
            fired = Some(f);
            if j.frame {
                if let Err((class, text)) = check_frame(name, &fr, &pre, &post) {
                    rec.violation(prop, &format!("{}|{}", name, class), &format!("{} ; pre-state: {} ; {}", text, pre.summary(), ctxinfo), "");
                }
            }
            if f && j.reference {
                if let Err((class, text)) = check_fired(name, &pre, &post) {
                    rec.violation(prop, &format!("{}|{}", name, class), &format!("{}: {} ; pre-state: {} ; {}", name, text, pre.summary(), ctxinfo), "");
                }
            }
        }
    }
    StepEvent { pre, post: Some(post), obs, fired }
}
