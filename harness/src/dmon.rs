//! D/F monitor: one interpreter step = one observed event (item, pre, post), judged by the
//! frame table (always) and by the reference model (when the instruction fires); literal, list
//! and name steps are judged by the documented interpreter rules.

use crate::frame::{check_frame, frame};
use crate::mon::{observed_step, panic_sig, StepObs};
use crate::out::Rec;
use crate::refm::check_fired;
use crate::snap::{SItem, Snap};
use pushr::push::instructions::{InstructionCache, InstructionSet};
use pushr::push::item::Item;
use pushr::push::state::{PushState, GRAPH_BUFFER_SIZE};

#[derive(Clone, Copy)]
pub struct Judge {
    pub frame: bool,
    pub reference: bool,
}

pub struct StepEvent {
    /// state before the step, WITHOUT the item that was executed
    pub pre: Snap,
    pub item: Option<SItem>,
    pub post: Option<Snap>,
    pub obs: StepObs,
    pub fired: Option<bool>,
    pub done: bool,
}

/// expected effect of executing a non-instruction item (documented interpreter rules)
pub fn plain_step_expect(pre: &Snap, item: &SItem) -> Snap {
    let mut e = pre.clone();
    match item {
        SItem::Bool(b) => e.b.insert(0, *b),
        SItem::Int(i) => e.i.insert(0, *i),
        SItem::Float(f) => e.f.insert(0, *f),
        SItem::Index(c, d) => e.x.insert(0, (*c, *d)),
        SItem::BV(v) => e.bv.insert(0, v.clone()),
        SItem::IV(v) => e.iv.insert(0, v.clone()),
        SItem::FV(v) => e.fv.insert(0, v.clone()),
        SItem::Graph(g) => {
            if e.g.len() < GRAPH_BUFFER_SIZE {
                e.g.insert(0, g.clone())
            }
        }
        SItem::List(v) => {
            // elements are pushed so that the first element is on top
            for x in v.iter().rev() {
                e.e.insert(0, x.clone());
            }
        }
        SItem::Name(n) => {
            if e.q {
                e.n.insert(0, n.clone());
                e.q = false;
            } else if let Some(b) = e.nb.get(n) {
                let b = b.clone();
                e.e.insert(0, b);
            } else {
                e.n.insert(0, n.clone());
            }
        }
        SItem::Instr(_) => {}
    }
    e
}

/// Take one interpreter step on whatever is on top of EXEC and judge it. Violations are
/// recorded under `prop` with signature `<name-or-kind>|<class>`.
pub fn judged_exec_step(prop: &str, state: &mut PushState, is: &mut InstructionSet, cache: &InstructionCache, rec: &mut Rec, j: Judge, ctxinfo: &str) -> StepEvent {
    let mut pre = Snap::of(state);
    let item = if pre.e.is_empty() { None } else { Some(pre.e.remove(0)) };
    let obs = observed_step(state, is, cache);
    let label = match &item {
        Some(SItem::Instr(n)) => n.clone(),
        Some(SItem::List(_)) => "<list>".to_string(),
        Some(SItem::Name(_)) => "<name>".to_string(),
        Some(_) => "<literal>".to_string(),
        None => "<empty-exec>".to_string(),
    };
    if let Some(p) = &obs.panic {
        rec.violation(prop, &format!("{}|panic|{}", label, panic_sig(p)), &format!("{} panicked: {} ; pre-state: {} ; {}", label, p, pre.summary(), ctxinfo), "");
        return StepEvent { pre, item, post: None, obs, fired: None, done: false };
    }
    let post = Snap::of(state);
    let mut fired = None;
    let done = obs.done;
    match &item {
        None => {
            if !done || post != pre {
                rec.violation(prop, "<empty-exec>|mismatch", &format!("a step on an empty EXEC stack must report completion and change nothing: done={} ; {}", done, pre.diff_text(&post)), "");
            }
        }
        Some(SItem::Instr(name)) => {
            if done {
                rec.violation(prop, &format!("{}|reported-done", name), "step() reported completion although it executed an item", "");
            }
            if name.starts_with("VERIF.") {
                // harness-registered probe instructions do not change the state
            } else {
                match frame(name) {
                    None => {
                        if is.is_instruction(name) {
                            rec.violation(prop, &format!("{}|no-frame-row", name), &format!("registered instruction {} has no frame row (harness incomplete or new instruction)", name), "");
                        } else if post != pre {
                            rec.violation(prop, "<unknown-instruction>|mismatch", &format!("unknown instruction {} must be ignored: {}", name, pre.diff_text(&post)), "");
                        }
                    }
                    Some(fr) => {
                        let f = fr.fires(&pre);
                        fired = Some(f);
                        if j.frame {
                            if let Err((class, text)) = check_frame(name, &fr, &pre, &post) {
                                rec.violation(prop, &format!("{}|{}", name, class), &format!("{} ; pre-state: {} ; {}", text, pre.summary(), ctxinfo), "");
                            }
                        }
                        if f && j.reference {
                            if let Err((class, text)) = check_fired(name, &pre, &post) {
                                rec.violation(prop, &format!("{}|{}", name, class), &format!("{}: {} ; pre-state: {} ; {}", name, text, pre.summary(), ctxinfo), "");
                            }
                        }
                    }
                }
            }
        }
        Some(it) => {
            if done {
                rec.violation(prop, &format!("{}|reported-done", label), "step() reported completion although it executed an item", "");
            }
            if j.reference {
                let exp = plain_step_expect(&pre, it);
                if exp != post {
                    rec.violation(prop, &format!("{}|mismatch", label), &format!("executing {}: {} ; pre-state: {} ; {}", it, exp.diff_text(&post), pre.summary(), ctxinfo), "");
                }
            }
        }
    }
    StepEvent { pre, item, post: Some(post), obs, fired, done }
}

/// Execute instruction `name` on `state` (put it on EXEC, take one step) and judge the step.
pub fn judged_step(prop: &str, name: &str, state: &mut PushState, is: &mut InstructionSet, cache: &InstructionCache, rec: &mut Rec, j: Judge, ctxinfo: &str) -> StepEvent {
    state.exec_stack.push(Item::instruction(name.to_string()));
    judged_exec_step(prop, state, is, cache, rec, j, ctxinfo)
}
