//! Coverage-guided workload driver ("decision tape" fuzzing). A libFuzzer input is not a test
//! input of pushr but the tape of decisions of this harness's own generators (rng::set_tape):
//! one execution = one case of every random part of the property's ordinary check, with the same
//! monitors and oracles; exhaustive parts are skipped. Violations go to the same JSONL log as
//! in the sharded workers, plus the tape that produced them.
use crate::out::Rec;
use crate::rng;
use crate::{build_profile, props, Ctx, Tier};
use std::io::Write;

pub const FUZZABLE: [&str; 16] = ["C01", "C02", "C03", "C04", "C05", "C06", "C07", "C08", "C09", "C10", "C11", "C16", "C17", "C18", "C19", "C20"];

pub struct FuzzSession {
    pub ctx: Ctx,
    pub span: u64,
    pub execs: u64,
    tape_dir: Option<String>,
    tapes_saved: u64,
}

impl FuzzSession {
    pub fn new(prop: &str, log: &str, tape_dir: Option<String>, seed: u64) -> FuzzSession {
        FuzzSession::new_with_marker(prop, log, None, tape_dir, seed)
    }
    pub fn new_with_marker(prop: &str, log: &str, marker: Option<String>, tape_dir: Option<String>, seed: u64) -> FuzzSession {
        let rec = Rec::new(log, marker);
        let mut ctx = Ctx { prop: prop.to_string(), tier: Tier::Quick, seed, shard: 0, nshards: 1, start: 0, mode: String::new(), profile: build_profile(), rec, fuzz: Some(u64::MAX), max_case: std::cell::Cell::new(0) };
        // dry pass: no case index matches, the loops only count -> span of case indices
        rng::set_tape(Some(vec![]));
        props::run(&mut ctx);
        rng::set_tape(None);
        let span = ctx.max_case.get() + 1;
        ctx.rec.note("fuzz_case_span", &span.to_string());
        ctx.rec.checkpoint();
        FuzzSession { ctx, span, execs: 0, tape_dir, tapes_saved: 0 }
    }

    /// run one tape; returns the number of violations recorded by it
    pub fn one(&mut self, data: &[u8]) -> u64 {
        // the case index comes from the END of the tape, generator decisions from its start
        let mut kb = [0u8; 8];
        let n = data.len().min(8);
        kb[..n].copy_from_slice(&data[data.len() - n..]);
        let k = u64::from_le_bytes(kb) % self.span.max(1);
        self.ctx.fuzz = Some(k);
        let before = self.ctx.rec.violations_recorded();
        let sigs_before = self.ctx.rec.distinct_violations();
        let tape_name = self.tape_dir.as_ref().map(|d| format!("{}/{}-{:016x}.tape", d, self.ctx.prop, rng::hash_str(&format!("{:?}", data))));
        self.ctx.rec.detail_suffix = match &tape_name {
            Some(n) => format!(" ; found by decision-tape fuzzing, tape: {} (re-run: harness/target/release/pvmon {} --mode fuzz-replay --tape <file> --log /dev/stdout)", n, self.ctx.prop),
            None => String::new(),
        };
        rng::set_tape(Some(data.to_vec()));
        props::run(&mut self.ctx);
        rng::set_tape(None);
        self.execs += 1;
        self.ctx.rec.count("fuzz_execs", 1);
        let newv = self.ctx.rec.violations_recorded() - before;
        if self.ctx.rec.distinct_violations() > sigs_before && self.tapes_saved < 200 {
            if let (Some(d), Some(name)) = (&self.tape_dir, &tape_name) {
                let _ = std::fs::create_dir_all(d);
                if let Ok(mut f) = std::fs::File::create(name) {
                    let _ = f.write_all(data);
                    self.tapes_saved += 1;
                }
            }
        }
        if self.ctx.rec.distinct_violations() > sigs_before || self.execs % 2048 == 0 {
            self.ctx.rec.checkpoint();
        }
        newv
    }
}
