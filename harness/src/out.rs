//! Event log of a worker: JSONL records consumed by ./check. Everything the driver reports
//! (coverage, counts, violations, samples) is measured here by the monitors, on this run.

use crate::rng::hash_str;
use std::collections::{BTreeMap, HashSet};
use std::fs::{File, OpenOptions};
use std::io::{BufWriter, Write};

pub fn jesc(s: &str) -> String {
    let mut o = String::with_capacity(s.len() + 2);
    o.push('"');
    for c in s.chars() {
        match c {
            '"' => o.push_str("\\\""),
            '\\' => o.push_str("\\\\"),
            '\n' => o.push_str("\\n"),
            '\r' => o.push_str("\\r"),
            '\t' => o.push_str("\\t"),
            c if (c as u32) < 0x20 => o.push_str(&format!("\\u{:04x}", c as u32)),
            c => o.push(c),
        }
    }
    o.push('"');
    o
}

pub struct Rec {
    w: BufWriter<File>,
    marker_path: Option<String>,
    marker_file: Option<File>,
    cov_seen: HashSet<u64>,
    cov_new: Vec<u64>,
    notes_seen: HashSet<u64>,
    counters: BTreeMap<String, u64>,
    maxima: BTreeMap<String, u64>,
    viol_seen: BTreeMap<String, u64>,
    samples: BTreeMap<String, usize>,
    sets: BTreeMap<String, std::collections::BTreeSet<String>>,
    viol_total: u64,
    marker_calls: u64,
    pub sample_cap: usize,
    pub viol_detail_cap: u64,
    /// appended to every violation detail (fuzz mode: where the decision tape is stored)
    pub detail_suffix: String,
    /// corpus replay: every marker written while a tape runs names the TAPE index (so that the
    /// supervisor restarts after the tape that killed the worker)
    pub marker_case_override: Option<u64>,
}

impl Rec {
    pub fn new(path: &str, marker_path: Option<String>) -> Rec {
        let f = OpenOptions::new().create(true).append(true).open(path).expect("open log");
        Rec {
            w: BufWriter::new(f),
            marker_path,
            marker_file: None,
            cov_seen: HashSet::new(),
            cov_new: vec![],
            notes_seen: HashSet::new(),
            counters: BTreeMap::new(),
            maxima: BTreeMap::new(),
            viol_seen: BTreeMap::new(),
            samples: BTreeMap::new(),
            sets: BTreeMap::new(),
            viol_total: 0,
            marker_calls: 0,
            sample_cap: 3,
            viol_detail_cap: 3,
            detail_suffix: String::new(),
            marker_case_override: None,
        }
    }

    pub fn count(&mut self, name: &str, n: u64) {
        *self.counters.entry(name.to_string()).or_insert(0) += n;
    }
    pub fn max(&mut self, name: &str, v: u64) {
        let e = self.maxima.entry(name.to_string()).or_insert(0);
        if v > *e {
            *e = v;
        }
    }
    /// distinct-coverage key (counted once per run across all shards)
    pub fn cover(&mut self, key: &str) -> bool {
        let h = hash_str(key);
        if self.cov_seen.insert(h) {
            self.cov_new.push(h);
            true
        } else {
            false
        }
    }
    pub fn cover_h(&mut self, h: u64) -> bool {
        if self.cov_seen.insert(h) {
            self.cov_new.push(h);
            true
        } else {
            false
        }
    }
    /// A violation of `prop` with signature `sig` (stable: no seeds, no operand values).
    pub fn distinct_violations(&self) -> usize {
        self.viol_seen.len()
    }
    pub fn violations_recorded(&self) -> u64 {
        self.viol_total
    }
    pub fn violation(&mut self, prop: &str, sig: &str, detail: &str, replay: &str) {
        self.viol_total += 1;
        let key = format!("{}|{}", prop, sig);
        let n = self.viol_seen.entry(key).or_insert(0);
        *n += 1;
        if *n <= self.viol_detail_cap {
            let _ = writeln!(
                self.w,
                "{{\"k\":\"viol\",\"prop\":{},\"sig\":{},\"detail\":{},\"replay\":{}}}",
                jesc(prop),
                jesc(sig),
                jesc(&format!("{}{}", detail.chars().take(4000).collect::<String>(), self.detail_suffix)),
                jesc(replay)
            );
            let _ = self.w.flush();
        } else {
            self.count(&format!("viol_more|{}|{}", prop, sig), 1);
        }
    }
    /// named set of strings, unioned across shards by the driver (e.g. instruction names reached)
    pub fn set_add(&mut self, set: &str, value: &str) {
        self.sets.entry(set.to_string()).or_default().insert(value.to_string());
    }
    pub fn inconclusive(&mut self, prop: &str, what: &str) {
        let _ = writeln!(self.w, "{{\"k\":\"inconclusive\",\"prop\":{},\"what\":{}}}", jesc(prop), jesc(what));
    }
    /// keep the first `sample_cap` samples per class
    pub fn sample(&mut self, class: &str, text: &str) {
        let n = self.samples.entry(class.to_string()).or_insert(0);
        if *n < self.sample_cap {
            *n += 1;
            let _ = writeln!(self.w, "{{\"k\":\"sample\",\"class\":{},\"v\":{}}}", jesc(class), jesc(&text.chars().take(1500).collect::<String>()));
        }
    }
    pub fn note(&mut self, key: &str, text: &str) {
        // identical notes are written once (fuzz mode repeats the same run() many times)
        if !self.notes_seen.insert(hash_str(&format!("{}\u{1}{}", key, text))) {
            return;
        }
        let _ = writeln!(self.w, "{{\"k\":\"note\",\"key\":{},\"v\":{}}}", jesc(key), jesc(text));
    }
    /// Tell the supervisor which case is about to run (survives an abort of this process).
    pub fn case_marker(&mut self, case: u64, what: &str) {
        use std::os::unix::fs::FileExt;
        let case = self.marker_case_override.unwrap_or(case);
        if self.marker_file.is_none() {
            if let Some(p) = &self.marker_path {
                self.marker_file = File::create(p).ok();
            }
        }
        if let Some(f) = &self.marker_file {
            // fixed-width record at offset 0: cheap enough to do before every case
            let mut line = format!("{} {}", case, what.replace('\n', " "));
            let mut cut = line.len().min(250);
            while !line.is_char_boundary(cut) {
                cut -= 1;
            }
            line.truncate(cut);
            while line.len() < 255 {
                line.push(' ');
            }
            line.push('\n');
            let _ = f.write_all_at(line.as_bytes(), 0);
        }
    }
    /// like case_marker, but only every `every`-th call writes (a LOCAL counter: throttling on
    /// the global case number silently never fires on shards whose residue never matches)
    pub fn case_marker_throttled(&mut self, case: u64, what: &str, every: u64) {
        self.marker_calls += 1;
        if self.marker_calls % every.max(1) == 1 || every <= 1 {
            self.case_marker(case, what);
        }
    }
    /// flush counters / coverage accumulated so far (deltas)
    pub fn checkpoint(&mut self) {
        if !self.counters.is_empty() {
            let mut s = String::from("{\"k\":\"count\",\"c\":{");
            for (i, (k, v)) in self.counters.iter().enumerate() {
                if i > 0 {
                    s.push(',');
                }
                s.push_str(&format!("{}:{}", jesc(k), v));
            }
            s.push_str("}}");
            let _ = writeln!(self.w, "{}", s);
            self.counters.clear();
        }
        if !self.maxima.is_empty() {
            let mut s = String::from("{\"k\":\"max\",\"c\":{");
            for (i, (k, v)) in self.maxima.iter().enumerate() {
                if i > 0 {
                    s.push(',');
                }
                s.push_str(&format!("{}:{}", jesc(k), v));
            }
            s.push_str("}}");
            let _ = writeln!(self.w, "{}", s);
        }
        if !self.sets.is_empty() {
            for (name, vals) in self.sets.iter() {
                let mut s = format!("{{\"k\":\"set\",\"name\":{},\"v\":[", jesc(name));
                for (i, v) in vals.iter().enumerate() {
                    if i > 0 {
                        s.push(',');
                    }
                    s.push_str(&jesc(v));
                }
                s.push_str("]}");
                let _ = writeln!(self.w, "{}", s);
            }
            self.sets.clear();
        }
        if !self.cov_new.is_empty() {
            let mut s = String::from("{\"k\":\"cov\",\"h\":[");
            for (i, h) in self.cov_new.iter().enumerate() {
                if i > 0 {
                    s.push(',');
                }
                s.push_str(&h.to_string());
            }
            s.push_str("]}");
            let _ = writeln!(self.w, "{}", s);
            self.cov_new.clear();
        }
        let _ = self.w.flush();
    }
    pub fn finish(mut self) {
        self.checkpoint();
        let _ = writeln!(self.w, "{{\"k\":\"done\"}}");
        let _ = self.w.flush();
    }
}
