//! Execution under observation: panic capture (hook + catch_unwind), per-step CPU time and
//! allocation accounting, instruction-set construction with EXEC.CMD stubbed, and wrapping of
//! every registered instruction in a monitoring closure through the public API.

use crate::alloc;
use pushr::push::instructions::{Instruction, InstructionCache, InstructionSet};
use pushr::push::interpreter::PushInterpreter;
use pushr::push::item::Item;
use pushr::push::state::PushState;
use std::cell::RefCell;
use std::panic::{self, AssertUnwindSafe};
use std::sync::Once;

thread_local! {
    static LAST_PANIC: RefCell<Option<String>> = RefCell::new(None);
}
static HOOK: Once = Once::new();

pub fn install_panic_hook() {
    HOOK.call_once(|| {
        panic::set_hook(Box::new(|info| {
            let loc = info.location().map(|l| format!("{}:{}", l.file(), l.line())).unwrap_or_else(|| "?".into());
            let msg = if let Some(s) = info.payload().downcast_ref::<&str>() {
                s.to_string()
            } else if let Some(s) = info.payload().downcast_ref::<String>() {
                s.clone()
            } else {
                "<non-string panic>".to_string()
            };
            if std::env::var("PVMON_PRINT_PANICS").is_ok() {
                eprintln!("panic: {} @ {}", msg, loc);
            }
            LAST_PANIC.with(|p| *p.borrow_mut() = Some(format!("{} @ {}", msg, loc)));
        }));
    });
}

/// Run `f`, converting a panic into Err("message @ file:line").
pub fn guarded<R>(f: impl FnOnce() -> R) -> Result<R, String> {
    install_panic_hook();
    LAST_PANIC.with(|p| *p.borrow_mut() = None);
    match panic::catch_unwind(AssertUnwindSafe(f)) {
        Ok(r) => Ok(r),
        Err(_) => Err(LAST_PANIC.with(|p| p.borrow_mut().take()).unwrap_or_else(|| "panic (no message)".into())),
    }
}

/// Strip line numbers and concrete values from a panic text so it can serve as a signature:
/// "attempt to add with overflow @ /repo/src/push/integer.rs:86" -> "integer.rs|attempt to add with overflow"
pub fn panic_sig(p: &str) -> String {
    let (msg, loc) = match p.rfind(" @ ") {
        Some(k) => (&p[..k], &p[k + 3..]),
        None => (p, "?"),
    };
    let file = loc.rsplit('/').next().unwrap_or(loc);
    let file = file.split(':').next().unwrap_or(file);
    // drop quoted operand text (`...` and '...') and digits (indices, lengths) from the message
    let mut unq = String::new();
    let mut quote: Option<char> = None;
    for c in msg.chars() {
        match quote {
            Some(q) => {
                if c == q {
                    quote = None;
                    unq.push(q);
                }
            }
            None => {
                unq.push(c);
                if c == '`' || c == '\'' {
                    quote = Some(c);
                }
            }
        }
    }
    let msg = unq.as_str();
    let mut m = String::new();
    let mut last_hash = false;
    for c in msg.chars() {
        if c.is_ascii_digit() {
            if !last_hash {
                m.push('#');
                last_hash = true;
            }
        } else {
            m.push(c);
            last_hash = false;
        }
    }
    let m: String = m.chars().take(90).collect();
    format!("{}|{}", file, m)
}

/// Harmless stand-in for EXEC.CMD (the statement's envelope: "pointed at a harmless target"):
/// consumes the documented operands, spawns nothing, does not sleep.
pub fn exec_cmd_stub(push_state: &mut PushState, _c: &InstructionCache) {
    if let Some(num_args) = push_state.int_stack.pop() {
        if num_args > -1 {
            let _ = push_state.name_stack.pop_vec((num_args as usize).saturating_add(1));
        }
    }
}

/// Full default instruction set with EXEC.CMD stubbed. Returns the set and a SORTED name list
/// (HashMap order must never leak into a workload).
pub fn new_iset() -> (InstructionSet, Vec<String>) {
    let mut is = InstructionSet::new();
    is.load();
    is.add("EXEC.CMD".to_string(), Instruction::new(exec_cmd_stub));
    let mut names = is.cache().list;
    names.sort();
    (is, names)
}

pub fn sorted_cache(is: &InstructionSet) -> InstructionCache {
    let mut l = is.cache().list;
    l.sort();
    InstructionCache::new(l)
}

#[derive(Debug, Clone, Default)]
pub struct StepObs {
    pub panic: Option<String>,
    pub done: bool,
    pub cpu_s: f64,
    pub bytes_requested: u64,
    pub max_single: usize,
    pub peak_growth: usize,
}

/// One interpreter step under observation.
pub fn observed_step(state: &mut PushState, is: &mut InstructionSet, cache: &InstructionCache) -> StepObs {
    let a0 = alloc::mark();
    let t0 = alloc::thread_cpu_s();
    let r = guarded(|| PushInterpreter::step(state, is, cache));
    let t1 = alloc::thread_cpu_s();
    let a1 = alloc::stats();
    let mut o = StepObs::default();
    o.cpu_s = t1 - t0;
    o.bytes_requested = a1.requested - a0.requested;
    o.max_single = a1.max_single;
    o.peak_growth = a1.peak.saturating_sub(a0.live);
    match r {
        Ok(d) => o.done = d,
        Err(p) => o.panic = Some(p),
    }
    o
}

/// Execute instruction `name` as the interpreter would: put it on EXEC, take one step.
pub fn step_named(state: &mut PushState, is: &mut InstructionSet, cache: &InstructionCache, name: &str) -> StepObs {
    state.exec_stack.push(Item::instruction(name.to_string()));
    observed_step(state, is, cache)
}
