//! Canonical, totally ordered, hashable snapshot of *everything* in a PushState, and a deep
//! copy of a PushState through its public API (PushState / PushBuffer are not Clone).
//!
//! Conventions: index 0 of every stack vector is the TOP (stack position 0); index 0 of a list
//! is its first element in printed order (= stack position 0 of the list's item stack); queues
//! are oldest-first; the graph stack is top-first. Floats are stored as bit patterns with every
//! NaN canonicalised to one NaN; -0.0 and 0.0 stay distinct.

use pushr::push::buffer::{BufferType, PushBuffer};
use pushr::push::configuration::PushConfiguration;
use pushr::push::graph::Graph;
use pushr::push::index::Index;
use pushr::push::io::PushMessage;
use pushr::push::item::{Item, PushType};
use pushr::push::stack::PushStack;
use pushr::push::state::*;
use pushr::push::vector::{BoolVector, FloatVector, IntVector};
use std::collections::BTreeMap;
use std::fmt;

pub const CANON_NAN: u32 = 0x7fc0_0000;

pub fn fb(f: f32) -> u32 {
    if f.is_nan() {
        CANON_NAN
    } else {
        f.to_bits()
    }
}
pub fn fl(b: u32) -> f32 {
    f32::from_bits(b)
}
pub fn fstr(b: u32) -> String {
    let f = fl(b);
    if f.is_nan() {
        "NaN".to_string()
    } else if f == 0.0 && f.is_sign_negative() {
        "-0.0".to_string()
    } else {
        format!("{:?}", f)
    }
}

#[derive(Clone, PartialEq, Eq, Hash, Debug, PartialOrd, Ord, Default)]
pub struct SGraph {
    /// (id, state) sorted
    pub nodes: Vec<(usize, i32)>,
    /// (destination, origin, weight bits) sorted; duplicates are preserved so that a broken
    /// "one edge per ordered pair" invariant is visible
    pub edges: Vec<(usize, usize, u32)>,
}

impl SGraph {
    pub fn of(g: &Graph) -> SGraph {
        let mut nodes: Vec<(usize, i32)> = g.nodes.iter().map(|(k, n)| (*k, n.get_state())).collect();
        // the map key and the node's own id must agree; encode a disagreement so it cannot hide
        for (k, n) in g.nodes.iter() {
            if *k != n.get_id() {
                nodes.push((usize::MAX, n.get_id() as i32));
            }
        }
        nodes.sort();
        let mut edges = vec![];
        for (dest, ies) in g.edges.iter() {
            for e in ies {
                edges.push((*dest, e.get_origin_id(), fb(e.get_weight())));
            }
        }
        edges.sort();
        SGraph { nodes, edges }
    }
    pub fn has_node(&self, id: usize) -> bool {
        self.nodes.iter().any(|(k, _)| *k == id)
    }
    pub fn state(&self, id: usize) -> Option<i32> {
        self.nodes.iter().find(|(k, _)| *k == id).map(|(_, s)| *s)
    }
    pub fn weight(&self, origin: usize, dest: usize) -> Option<u32> {
        self.edges.iter().find(|(d, o, _)| *d == dest && *o == origin).map(|(_, _, w)| *w)
    }
}

impl fmt::Display for SGraph {
    fn fmt(&self, f: &mut fmt::Formatter<'_>) -> fmt::Result {
        write!(f, "G{{n:[")?;
        for (i, (k, s)) in self.nodes.iter().enumerate() {
            if i > 0 {
                write!(f, ",")?;
            }
            write!(f, "{}:{}", k, s)?;
        }
        write!(f, "] e:[")?;
        for (i, (d, o, w)) in self.edges.iter().enumerate() {
            if i > 0 {
                write!(f, ",")?;
            }
            write!(f, "{}->{}:{}", o, d, fstr(*w))?;
        }
        write!(f, "]}}")
    }
}

#[derive(Clone, PartialEq, Eq, Hash, Debug, PartialOrd, Ord)]
pub enum SItem {
    List(Vec<SItem>),
    Instr(String),
    Name(String),
    Bool(bool),
    Int(i32),
    Float(u32),
    Index(usize, usize),
    BV(Vec<bool>),
    IV(Vec<i32>),
    FV(Vec<u32>),
    Graph(SGraph),
}

impl SItem {
    pub fn of(item: &Item) -> SItem {
        match item {
            Item::List { items } => {
                let mut v = Vec::with_capacity(items.size());
                for i in 0..items.size() {
                    v.push(SItem::of(items.get(i).unwrap()));
                }
                SItem::List(v)
            }
            Item::InstructionMeta { name } => SItem::Instr(name.clone()),
            Item::Identifier { name } => SItem::Name(name.clone()),
            Item::Literal { push_type } => match push_type {
                PushType::Bool { val } => SItem::Bool(*val),
                PushType::Int { val } => SItem::Int(*val),
                PushType::Float { val } => SItem::Float(fb(*val)),
                PushType::Index { val } => SItem::Index(val.current, val.destination),
                PushType::BoolVector { val } => SItem::BV(val.values.clone()),
                PushType::IntVector { val } => SItem::IV(val.values.clone()),
                PushType::FloatVector { val } => SItem::FV(val.values.iter().map(|x| fb(*x)).collect()),
                PushType::Graph { val } => SItem::Graph(SGraph::of(val)),
            },
        }
    }

    /// Build a real Item. Graph literals can only be rebuilt when empty (node ids are handed
    /// out by a process-global counter); generators never put non-empty graphs into code.
    pub fn to_item(&self) -> Item {
        match self {
            SItem::List(v) => {
                // Item::list(vec): the LAST element of vec is position 0
                let mut items: Vec<Item> = v.iter().map(|x| x.to_item()).collect();
                items.reverse();
                Item::list(items)
            }
            SItem::Instr(n) => Item::instruction(n.clone()),
            SItem::Name(n) => Item::name(n.clone()),
            SItem::Bool(b) => Item::bool(*b),
            SItem::Int(i) => Item::int(*i),
            SItem::Float(f) => Item::float(fl(*f)),
            SItem::Index(c, d) => {
                let mut ix = Index::new(*d);
                ix.current = *c;
                Item::index(ix)
            }
            SItem::BV(v) => Item::boolvec(BoolVector::new(v.clone())),
            SItem::IV(v) => Item::intvec(IntVector::new(v.clone())),
            SItem::FV(v) => Item::floatvec(FloatVector::new(v.iter().map(|x| fl(*x)).collect())),
            SItem::Graph(_) => Item::graph(),
        }
    }

    pub fn is_list(&self) -> bool {
        matches!(self, SItem::List(_))
    }

    /// number of points (each list and each atom is one point)
    pub fn points(&self) -> usize {
        match self {
            SItem::List(v) => 1 + v.iter().map(|x| x.points()).sum::<usize>(),
            _ => 1,
        }
    }
    pub fn depth(&self) -> usize {
        match self {
            SItem::List(v) => 1 + v.iter().map(|x| x.depth()).max().unwrap_or(0),
            _ => 0,
        }
    }
    /// preorder flattening: point i of the tree
    pub fn preorder<'a>(&'a self, out: &mut Vec<&'a SItem>) {
        out.push(self);
        if let SItem::List(v) = self {
            for x in v {
                x.preorder(out);
            }
        }
    }
    /// all atoms (non-list points) in preorder
    pub fn atoms<'a>(&'a self, out: &mut Vec<&'a SItem>) {
        match self {
            SItem::List(v) => {
                for x in v {
                    x.atoms(out);
                }
            }
            a => out.push(a),
        }
    }
    /// replace point `idx` (preorder) by `new`; returns true when replaced
    pub fn replace_point(&mut self, idx: &mut usize, new: &SItem) -> bool {
        if *idx == 0 {
            *self = new.clone();
            return true;
        }
        *idx -= 1;
        if let SItem::List(v) = self {
            for x in v.iter_mut() {
                if x.replace_point(idx, new) {
                    return true;
                }
            }
        }
        false
    }
    /// The text pushr prints for this item (`Item::to_string`), computed independently.
    pub fn printed(&self) -> String {
        match self {
            SItem::List(v) => {
                let inner: Vec<String> = v.iter().map(|x| x.printed()).collect();
                format!("( {} )", inner.join(" ").trim())
            }
            SItem::Instr(n) | SItem::Name(n) => n.clone(),
            SItem::Bool(b) => if *b { "TRUE".into() } else { "FALSE".into() },
            SItem::Int(i) => i.to_string(),
            SItem::Float(f) => format!("{:.3}", fl(*f)),
            SItem::Index(c, d) => format!("{}/{}", c, d),
            SItem::BV(v) => format!("[{}]", v.iter().map(|b| if *b { "TRUE" } else { "FALSE" }).collect::<Vec<_>>().join(",")),
            SItem::IV(v) => format!("[{}]", v.iter().map(|b| b.to_string()).collect::<Vec<_>>().join(",")),
            SItem::FV(v) => format!("[{}]", v.iter().map(|b| format!("{:.3}", fl(*b))).collect::<Vec<_>>().join(",")),
            SItem::Graph(g) => format!("{}", g),
        }
    }
}

impl fmt::Display for SItem {
    fn fmt(&self, f: &mut fmt::Formatter<'_>) -> fmt::Result {
        match self {
            SItem::List(v) => {
                write!(f, "(")?;
                for x in v {
                    write!(f, " {}", x)?;
                }
                write!(f, " )")
            }
            SItem::Instr(n) => write!(f, "{}", n),
            SItem::Name(n) => write!(f, "'{}", n),
            SItem::Bool(b) => write!(f, "{}", if *b { "TRUE" } else { "FALSE" }),
            SItem::Int(i) => write!(f, "{}", i),
            SItem::Float(x) => write!(f, "{}f", fstr(*x)),
            SItem::Index(c, d) => write!(f, "{}/{}", c, d),
            SItem::BV(v) => write!(f, "BOOL[{}]", v.iter().map(|b| if *b { "1" } else { "0" }).collect::<Vec<_>>().join(",")),
            SItem::IV(v) => write!(f, "INT[{}]", v.iter().map(|b| b.to_string()).collect::<Vec<_>>().join(",")),
            SItem::FV(v) => write!(f, "FLOAT[{}]", v.iter().map(|b| fstr(*b)).collect::<Vec<_>>().join(",")),
            SItem::Graph(g) => write!(f, "{}", g),
        }
    }
}

#[derive(Clone, PartialEq, Eq, Hash, Debug, PartialOrd, Ord)]
pub struct SCfg {
    pub max_random_float: u32,
    pub min_random_float: u32,
    pub max_random_integer: i32,
    pub min_random_integer: i32,
    pub eval_push_limit: i32,
    pub eval_time_limit: u64,
    pub growth_cap: usize,
    pub new_erc_name_probability: u32,
    pub max_points_in_random_expressions: i32,
    pub max_points_in_program: i32,
}

impl SCfg {
    pub fn of(c: &PushConfiguration) -> SCfg {
        SCfg {
            max_random_float: fb(c.max_random_float),
            min_random_float: fb(c.min_random_float),
            max_random_integer: c.max_random_integer,
            min_random_integer: c.min_random_integer,
            eval_push_limit: c.eval_push_limit,
            eval_time_limit: c.eval_time_limit,
            growth_cap: c.growth_cap,
            new_erc_name_probability: fb(c.new_erc_name_probability),
            max_points_in_random_expressions: c.max_points_in_random_expressions,
            max_points_in_program: c.max_points_in_program,
        }
    }
}

pub fn copy_cfg(c: &PushConfiguration) -> PushConfiguration {
    PushConfiguration {
        max_random_float: c.max_random_float,
        min_random_float: c.min_random_float,
        max_random_integer: c.max_random_integer,
        min_random_integer: c.min_random_integer,
        eval_push_limit: c.eval_push_limit,
        eval_time_limit: c.eval_time_limit,
        growth_cap: c.growth_cap,
        new_erc_name_probability: c.new_erc_name_probability,
        max_points_in_random_expressions: c.max_points_in_random_expressions,
        max_points_in_program: c.max_points_in_program,
    }
}

/// State components (the ten stacks plus everything else a step could touch).
#[derive(Clone, Copy, PartialEq, Eq, Hash, Debug, PartialOrd, Ord)]
pub enum St {
    Bool,
    Int,
    Float,
    Name,
    Code,
    Exec,
    Index,
    BV,
    IV,
    FV,
    Input,
    Output,
    Graph,
    Bindings,
    Quote,
    Send,
    Config,
}

pub const ALL_COMPS: [St; 17] = [
    St::Bool,
    St::Int,
    St::Float,
    St::Name,
    St::Code,
    St::Exec,
    St::Index,
    St::BV,
    St::IV,
    St::FV,
    St::Input,
    St::Output,
    St::Graph,
    St::Bindings,
    St::Quote,
    St::Send,
    St::Config,
];

pub type Msg = (Vec<i32>, Vec<bool>);

#[derive(Clone, PartialEq, Eq, Hash, Debug)]
pub struct Snap {
    pub b: Vec<bool>,
    pub i: Vec<i32>,
    pub f: Vec<u32>,
    pub n: Vec<String>,
    pub c: Vec<SItem>,
    pub e: Vec<SItem>,
    pub x: Vec<(usize, usize)>,
    pub bv: Vec<Vec<bool>>,
    pub iv: Vec<Vec<i32>>,
    pub fv: Vec<Vec<u32>>,
    /// oldest first
    pub inp: Vec<Msg>,
    /// oldest first
    pub out: Vec<Msg>,
    /// top first
    pub g: Vec<SGraph>,
    pub nb: BTreeMap<String, SItem>,
    pub q: bool,
    pub s: bool,
    pub cfg: SCfg,
}

fn stack_vec<T: Clone + fmt::Display + PartialEq + pushr::push::stack::PushPrint, U>(s: &PushStack<T>, f: impl Fn(&T) -> U) -> Vec<U> {
    let mut v = Vec::with_capacity(s.size());
    for i in 0..s.size() {
        v.push(f(s.get(i).unwrap()));
    }
    v
}

impl Snap {
    pub fn of(s: &PushState) -> Snap {
        let msg = |m: &PushMessage| (m.header.values.clone(), m.body.values.clone());
        Snap {
            b: stack_vec(&s.bool_stack, |x| *x),
            i: stack_vec(&s.int_stack, |x| *x),
            f: stack_vec(&s.float_stack, |x| fb(*x)),
            n: stack_vec(&s.name_stack, |x| x.clone()),
            c: stack_vec(&s.code_stack, SItem::of),
            e: stack_vec(&s.exec_stack, SItem::of),
            x: stack_vec(&s.index_stack, |x| (x.current, x.destination)),
            bv: stack_vec(&s.bool_vector_stack, |x| x.values.clone()),
            iv: stack_vec(&s.int_vector_stack, |x| x.values.clone()),
            fv: stack_vec(&s.float_vector_stack, |x| x.values.iter().map(|y| fb(*y)).collect()),
            inp: s.input_stack.iter().map(msg).collect(),
            out: s.output_stack.iter().map(msg).collect(),
            g: (0..s.graph_stack.size()).map(|k| SGraph::of(s.graph_stack.get(k).unwrap())).collect(),
            nb: s.name_bindings.iter().map(|(k, v)| (k.clone(), SItem::of(v))).collect(),
            q: s.quote_name,
            s: s.send_name,
            cfg: SCfg::of(&s.configuration),
        }
    }

    pub fn empty() -> Snap {
        Snap::of(&PushState::new())
    }

    /// pushr's own notion of state size (nine main stacks; INDEX, IO and GRAPH excluded)
    pub fn size9(&self) -> usize {
        self.b.len() + self.i.len() + self.f.len() + self.n.len() + self.c.len() + self.e.len() + self.bv.len() + self.iv.len() + self.fv.len()
    }

    /// rough byte size of the state (for the C15 bound)
    pub fn approx_bytes(&self) -> usize {
        fn ib(x: &SItem) -> usize {
            match x {
                SItem::List(v) => 48 + v.iter().map(ib).sum::<usize>(),
                SItem::Instr(n) | SItem::Name(n) => 48 + n.len(),
                SItem::BV(v) => 48 + v.len(),
                SItem::IV(v) => 48 + 4 * v.len(),
                SItem::FV(v) => 48 + 4 * v.len(),
                SItem::Graph(g) => 48 + 16 * g.nodes.len() + 24 * g.edges.len(),
                _ => 48,
            }
        }
        self.b.len()
            + 4 * self.i.len()
            + 4 * self.f.len()
            + self.n.iter().map(|s| 24 + s.len()).sum::<usize>()
            + self.c.iter().map(ib).sum::<usize>()
            + self.e.iter().map(ib).sum::<usize>()
            + 16 * self.x.len()
            + self.bv.iter().map(|v| 24 + v.len()).sum::<usize>()
            + self.iv.iter().map(|v| 24 + 4 * v.len()).sum::<usize>()
            + self.fv.iter().map(|v| 24 + 4 * v.len()).sum::<usize>()
            + self.inp.iter().chain(self.out.iter()).map(|(h, b)| 48 + 4 * h.len() + b.len()).sum::<usize>()
            + self.g.iter().map(|g| 96 + 16 * g.nodes.len() + 24 * g.edges.len()).sum::<usize>()
            + self.nb.iter().map(|(k, v)| 24 + k.len() + ib(v)).sum::<usize>()
    }

    pub fn depth(&self, st: St) -> usize {
        match st {
            St::Bool => self.b.len(),
            St::Int => self.i.len(),
            St::Float => self.f.len(),
            St::Name => self.n.len(),
            St::Code => self.c.len(),
            St::Exec => self.e.len(),
            St::Index => self.x.len(),
            St::BV => self.bv.len(),
            St::IV => self.iv.len(),
            St::FV => self.fv.len(),
            St::Input => self.inp.len(),
            St::Output => self.out.len(),
            St::Graph => self.g.len(),
            St::Bindings => self.nb.len(),
            _ => 0,
        }
    }

    pub fn comp_eq(&self, o: &Snap, st: St) -> bool {
        match st {
            St::Bool => self.b == o.b,
            St::Int => self.i == o.i,
            St::Float => self.f == o.f,
            St::Name => self.n == o.n,
            St::Code => self.c == o.c,
            St::Exec => self.e == o.e,
            St::Index => self.x == o.x,
            St::BV => self.bv == o.bv,
            St::IV => self.iv == o.iv,
            St::FV => self.fv == o.fv,
            St::Input => self.inp == o.inp,
            St::Output => self.out == o.out,
            St::Graph => self.g == o.g,
            St::Bindings => self.nb == o.nb,
            St::Quote => self.q == o.q,
            St::Send => self.s == o.s,
            St::Config => self.cfg == o.cfg,
        }
    }

    /// `self` (post) equals `pre` with k <= max items removed from the top of stack `st`
    /// (for the INPUT queue "top" is the oldest message, which is what INPUT.NEXT removes).
    pub fn is_pre_minus_top(&self, pre: &Snap, st: St, max: usize) -> bool {
        fn chk<T: PartialEq>(post: &[T], pre: &[T], max: usize) -> bool {
            if post.len() > pre.len() {
                return false;
            }
            let k = pre.len() - post.len();
            k <= max && pre[k..] == *post
        }
        match st {
            St::Bool => chk(&self.b, &pre.b, max),
            St::Int => chk(&self.i, &pre.i, max),
            St::Float => chk(&self.f, &pre.f, max),
            St::Name => chk(&self.n, &pre.n, max),
            St::Code => chk(&self.c, &pre.c, max),
            St::Exec => chk(&self.e, &pre.e, max),
            St::Index => chk(&self.x, &pre.x, max),
            St::BV => chk(&self.bv, &pre.bv, max),
            St::IV => chk(&self.iv, &pre.iv, max),
            St::FV => chk(&self.fv, &pre.fv, max),
            St::Input => chk(&self.inp, &pre.inp, max),
            St::Output => chk(&self.out, &pre.out, max),
            St::Graph => chk(&self.g, &pre.g, max),
            _ => self.comp_eq(pre, st),
        }
    }

    pub fn comp_str(&self, st: St) -> String {
        fn j<T: fmt::Display>(v: &[T]) -> String {
            let mut s = String::from("[");
            for (k, x) in v.iter().enumerate() {
                if k > 0 {
                    s.push(' ');
                }
                if k >= 24 {
                    s.push_str(&format!("..+{}", v.len() - k));
                    break;
                }
                s.push_str(&x.to_string());
            }
            s.push(']');
            s
        }
        let bvs = |v: &Vec<bool>| v.iter().map(|b| if *b { '1' } else { '0' }).collect::<String>();
        let ivs = |v: &Vec<i32>| format!("{:?}", v);
        let msgs = |v: &Vec<Msg>| j(&v.iter().map(|(h, b)| format!("{}&{}", ivs(h), bvs(b))).collect::<Vec<_>>());
        match st {
            St::Bool => j(&self.b.iter().map(|b| if *b { "T" } else { "F" }).collect::<Vec<_>>()),
            St::Int => j(&self.i),
            St::Float => j(&self.f.iter().map(|x| fstr(*x)).collect::<Vec<_>>()),
            St::Name => j(&self.n.iter().map(|x| format!("{:?}", x)).collect::<Vec<_>>()),
            St::Code => j(&self.c),
            St::Exec => j(&self.e),
            St::Index => j(&self.x.iter().map(|(c, d)| format!("{}/{}", c, d)).collect::<Vec<_>>()),
            St::BV => j(&self.bv.iter().map(|v| format!("<{}>", bvs(v))).collect::<Vec<_>>()),
            St::IV => j(&self.iv.iter().map(ivs).collect::<Vec<_>>()),
            St::FV => j(&self.fv.iter().map(|v| format!("<{}>", v.iter().map(|x| fstr(*x)).collect::<Vec<_>>().join(","))).collect::<Vec<_>>()),
            St::Input => msgs(&self.inp),
            St::Output => msgs(&self.out),
            St::Graph => j(&self.g),
            St::Bindings => j(&self.nb.iter().map(|(k, v)| format!("{}=>{}", k, v)).collect::<Vec<_>>()),
            St::Quote => self.q.to_string(),
            St::Send => self.s.to_string(),
            St::Config => format!("{:?}", self.cfg),
        }
    }

    /// names of components that differ
    pub fn diff_comps(&self, o: &Snap) -> Vec<St> {
        ALL_COMPS.iter().copied().filter(|c| !self.comp_eq(o, *c)).collect()
    }

    /// human-readable difference (expected = self, got = o)
    pub fn diff_text(&self, got: &Snap) -> String {
        let mut s = String::new();
        for c in self.diff_comps(got) {
            s.push_str(&format!("{:?}: expected {} got {}; ", c, self.comp_str(c), got.comp_str(c)));
        }
        s
    }

    pub fn digest(&self) -> u64 {
        use std::hash::{Hash, Hasher};
        let mut h = Fnv(0xcbf29ce484222325);
        self.hash(&mut h);
        h.finish()
    }

    pub fn summary(&self) -> String {
        let mut s = String::new();
        let names = ["B", "I", "F", "N", "C", "E", "X", "BV", "IV", "FV", "IN", "OUT", "G", "NB", "q", "s"];
        for (k, c) in ALL_COMPS.iter().enumerate().take(16) {
            let empty = match c {
                St::Quote => !self.q,
                St::Send => !self.s,
                _ => self.depth(*c) == 0,
            };
            if !empty {
                s.push_str(&format!("{}{} ", names[k], self.comp_str(*c)));
            }
        }
        if self.cfg != SCfg::of(&PushConfiguration::new()) {
            s.push_str(&format!("cfg={:?}", self.cfg));
        }
        s.trim_end().to_string()
    }
}

/// deterministic hasher (std's default SipHash is randomly keyed per process)
pub struct Fnv(pub u64);
impl std::hash::Hasher for Fnv {
    fn finish(&self) -> u64 {
        self.0
    }
    fn write(&mut self, bytes: &[u8]) {
        for b in bytes {
            self.0 ^= *b as u64;
            self.0 = self.0.wrapping_mul(0x100000001b3);
        }
    }
}

/// Deep copy of a PushState through the public API.
pub fn copy_state(s: &PushState) -> PushState {
    let mut t = PushState::new();
    t.bool_stack = s.bool_stack.clone();
    t.code_stack = s.code_stack.clone();
    t.exec_stack = s.exec_stack.clone();
    t.float_stack = s.float_stack.clone();
    t.index_stack = s.index_stack.clone();
    t.int_stack = s.int_stack.clone();
    t.name_stack = s.name_stack.clone();
    t.bool_vector_stack = s.bool_vector_stack.clone();
    t.float_vector_stack = s.float_vector_stack.clone();
    t.int_vector_stack = s.int_vector_stack.clone();
    let mut inp: PushBuffer<PushMessage> = PushBuffer::new(BufferType::Queue, s.input_stack.capacity());
    for m in s.input_stack.iter() {
        inp.push(m.clone());
    }
    t.input_stack = inp;
    let mut out: PushBuffer<PushMessage> = PushBuffer::new(BufferType::Queue, s.output_stack.capacity());
    for m in s.output_stack.iter() {
        out.push(m.clone());
    }
    t.output_stack = out;
    let mut g: PushBuffer<Graph> = PushBuffer::new(BufferType::Stack, s.graph_stack.capacity());
    for k in (0..s.graph_stack.size()).rev() {
        g.push(s.graph_stack.get(k).unwrap().clone());
    }
    t.graph_stack = g;
    t.name_bindings = s.name_bindings.clone();
    t.configuration = copy_cfg(&s.configuration);
    t.quote_name = s.quote_name;
    t.send_name = s.send_name;
    t
}

/// Build a PushStack whose position 0 (top) is v[0].
pub fn stack_from_top_first<T: Clone + fmt::Display + PartialEq + pushr::push::stack::PushPrint>(v: &[T]) -> PushStack<T> {
    let mut r: Vec<T> = v.to_vec();
    r.reverse();
    PushStack::from_vec(r)
}

/// Build a real state from a snapshot. Graphs with nodes cannot be rebuilt with the same ids
/// (ids come from a process-global counter): the graph stack is rebuilt with fresh ids that
/// keep the structure; callers that need graphs build them through the API instead.
pub fn build_state(s: &Snap) -> PushState {
    let mut t = PushState::new();
    t.bool_stack = stack_from_top_first(&s.b);
    t.int_stack = stack_from_top_first(&s.i);
    t.float_stack = stack_from_top_first(&s.f.iter().map(|x| fl(*x)).collect::<Vec<_>>());
    t.name_stack = stack_from_top_first(&s.n);
    t.code_stack = stack_from_top_first(&s.c.iter().map(|x| x.to_item()).collect::<Vec<_>>());
    t.exec_stack = stack_from_top_first(&s.e.iter().map(|x| x.to_item()).collect::<Vec<_>>());
    t.index_stack = stack_from_top_first(
        &s.x.iter()
            .map(|(c, d)| {
                let mut ix = Index::new(*d);
                ix.current = *c;
                ix
            })
            .collect::<Vec<_>>(),
    );
    t.bool_vector_stack = stack_from_top_first(&s.bv.iter().map(|v| BoolVector::new(v.clone())).collect::<Vec<_>>());
    t.int_vector_stack = stack_from_top_first(&s.iv.iter().map(|v| IntVector::new(v.clone())).collect::<Vec<_>>());
    t.float_vector_stack = stack_from_top_first(&s.fv.iter().map(|v| FloatVector::new(v.iter().map(|x| fl(*x)).collect())).collect::<Vec<_>>());
    for (h, b) in &s.inp {
        t.input_stack.push(PushMessage::new(IntVector::new(h.clone()), BoolVector::new(b.clone())));
    }
    for (h, b) in &s.out {
        t.output_stack.push(PushMessage::new(IntVector::new(h.clone()), BoolVector::new(b.clone())));
    }
    // one label -> id map for the whole graph stack: graphs that use the same node labels share
    // the real node (as snapshots taken with GRAPH.DUP do). A node is created in a scratch graph
    // and cloned into every graph that names it.
    let mut idmap: BTreeMap<usize, pushr::push::graph::Node> = BTreeMap::new();
    for sg in s.g.iter().rev() {
        let mut g = Graph::new();
        for (id, st) in &sg.nodes {
            let node = idmap.entry(*id).or_insert_with(|| {
                let mut scratch = Graph::new();
                let nid = scratch.add_node(0);
                scratch.nodes.remove(&nid).unwrap()
            });
            let mut n = node.clone();
            n.set_state(*st);
            g.nodes.insert(n.get_id(), n);
        }
        let idmap: BTreeMap<usize, usize> = idmap.iter().map(|(k, v)| (*k, v.get_id())).collect();
        for (d, o, w) in &sg.edges {
            if let (Some(dd), Some(oo)) = (idmap.get(d), idmap.get(o)) {
                g.add_edge(*oo, *dd, fl(*w));
            }
        }
        t.graph_stack.push(g);
    }
    for (k, v) in &s.nb {
        t.name_bindings.insert(k.clone(), v.to_item());
    }
    t.quote_name = s.q;
    t.send_name = s.s;
    t.configuration = PushConfiguration {
        max_random_float: fl(s.cfg.max_random_float),
        min_random_float: fl(s.cfg.min_random_float),
        max_random_integer: s.cfg.max_random_integer,
        min_random_integer: s.cfg.min_random_integer,
        eval_push_limit: s.cfg.eval_push_limit,
        eval_time_limit: s.cfg.eval_time_limit,
        growth_cap: s.cfg.growth_cap,
        new_erc_name_probability: fl(s.cfg.new_erc_name_probability),
        max_points_in_random_expressions: s.cfg.max_points_in_random_expressions,
        max_points_in_program: s.cfg.max_points_in_program,
    };
    t
}
