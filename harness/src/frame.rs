//! Frame table (C10): for every registered instruction its operand needs, documented guards,
//! what it may have consumed when it does not fire, and which state components it may change
//! when it does. Transcribed from SPEC-instructions.md (doc comments / README), not from the
//! implementation's control flow.

use crate::snap::*;

#[derive(Clone)]
pub struct Frame {
    /// minimum depths needed to fire
    pub needs: Vec<(St, usize)>,
    /// documented guard on the operands (evaluated only when the depth needs are met)
    pub guard: Option<fn(&Snap) -> bool>,
    /// when unfired: at most this many items may be missing from the top of these stacks
    pub pops: Vec<(St, usize)>,
    /// when fired: only these components may differ
    pub writes: Vec<St>,
}

pub const ALLN: usize = usize::MAX;

fn fr(needs: &[(St, usize)], guard: Option<fn(&Snap) -> bool>, pops: &[(St, usize)], writes: &[St]) -> Frame {
    Frame { needs: needs.to_vec(), guard, pops: pops.to_vec(), writes: writes.to_vec() }
}

pub fn stack_of_prefix(p: &str) -> Option<St> {
    Some(match p {
        "BOOLEAN" => St::Bool,
        "INTEGER" => St::Int,
        "FLOAT" => St::Float,
        "NAME" => St::Name,
        "CODE" => St::Code,
        "EXEC" => St::Exec,
        "BOOLVECTOR" => St::BV,
        "INTVECTOR" => St::IV,
        "FLOATVECTOR" => St::FV,
        _ => return None,
    })
}

pub fn elem_stack(v: St) -> St {
    match v {
        St::BV => St::Bool,
        St::IV => St::Int,
        St::FV => St::Float,
        x => x,
    }
}

pub fn split(name: &str) -> (&str, &str) {
    match name.find('.') {
        Some(k) => (&name[..k], &name[k + 1..]),
        None => (name, ""),
    }
}

impl Frame {
    pub fn fires(&self, pre: &Snap) -> bool {
        for (st, n) in &self.needs {
            if pre.depth(*st) < *n {
                return false;
            }
        }
        match self.guard {
            Some(g) => g(pre),
            None => true,
        }
    }
    pub fn may_write(&self, st: St) -> bool {
        self.writes.contains(&st)
    }
    pub fn max_pop(&self, st: St) -> usize {
        self.pops.iter().filter(|(s, _)| *s == st).map(|(_, n)| *n).max().unwrap_or(0)
    }
}

pub fn has_nan_weight(g: &SGraph) -> bool {
    g.edges.iter().any(|(_, _, w)| fl(*w).is_nan())
}

pub fn valid_bvrand(size: i32, sp: f32) -> bool {
    size >= 0 && sp >= 0.0 && sp <= 1.0
}

/// clamp as documented: max(min(i, n-1), 0)
pub fn clamp(i: i32, n: usize) -> usize {
    let hi = n as i64 - 1;
    (i as i64).min(hi).max(0) as usize
}

pub fn neighbor_params(size_raw: i32, index_raw: i32, dims_raw: i32, radius: f32) -> Option<(usize, usize, usize, f32)> {
    let size = size_raw.max(0);
    let index = index_raw.min(size - 1).max(0) as usize;
    let dims = dims_raw.min(size).max(0) as usize;
    let radius = if radius.is_nan() { 0.0 } else { radius.max(0.0) };
    if size < 1 || dims < 1 {
        None
    } else {
        Some((size as usize, dims, index, radius))
    }
}

pub fn frame(name: &str) -> Option<Frame> {
    use St::*;
    let (pre, suf) = split(name);
    if name == "NOOP" {
        return Some(fr(&[], None, &[], &[]));
    }
    // ---- generic stack manipulation on the nine typed stacks -------------------------------
    if let Some(t) = stack_of_prefix(pre) {
        let is_int = t == Int;
        let g = match suf {
            "DUP" => Some(fr(&[(t, 1)], None, &[], &[t])),
            "DDUP" if is_int => Some(fr(&[(Int, 2)], None, &[], &[Int])),
            "POP" => Some(fr(&[], None, &[(t, 1)], &[t])),
            "SWAP" => Some(fr(&[(t, 2)], None, &[], &[t])),
            "ROT" => Some(fr(&[(t, 3)], None, &[], &[t])),
            "YANK" | "SHOVE" => Some(fr(&[(Int, 1)], None, &[(Int, 1)], &[Int, t])),
            "YANKDUP" => {
                if is_int {
                    Some(fr(&[(Int, 2)], None, &[(Int, 1)], &[Int]))
                } else {
                    Some(fr(&[(Int, 1), (t, 1)], None, &[(Int, 1)], &[Int, t]))
                }
            }
            "FLUSH" => Some(fr(&[], None, &[(t, ALLN)], &[t])),
            "STACKDEPTH" => Some(fr(&[], None, &[], &[Int])),
            "ID" => Some(fr(&[], None, &[], &[Int])),
            "DEFINE" if t != Name => Some(fr(&[(Name, 1), (t, 1)], None, &[(Name, 1), (t, 1)], &[Name, t, Bindings])),
            "=" if matches!(t, Bool | Int | Float | Name) => Some(fr(&[(t, 2)], None, &[(t, 2)], &[t, Bool])),
            "=" if matches!(t, Code | Exec) => Some(fr(&[(t, 2)], None, &[], &[Bool])),
            "EQUAL" if matches!(t, BV | IV | FV) => Some(fr(&[(t, 2)], None, &[(t, 2)], &[t, Bool])),
            _ => None,
        };
        if g.is_some() {
            return g;
        }
    }
    Some(match name {
        // ---- BOOLEAN ---------------------------------------------------------------------
        "BOOLEAN.AND" | "BOOLEAN.OR" => fr(&[(Bool, 2)], None, &[(Bool, 2)], &[Bool]),
        "BOOLEAN.NOT" => fr(&[(Bool, 1)], None, &[(Bool, 1)], &[Bool]),
        "BOOLEAN.FROMFLOAT" => fr(&[(Float, 1)], None, &[(Float, 1)], &[Float, Bool]),
        "BOOLEAN.FROMINTEGER" => fr(&[(Int, 1)], None, &[(Int, 1)], &[Int, Bool]),
        "BOOLEAN.RAND" => fr(&[], None, &[], &[Bool]),
        // ---- INTEGER ---------------------------------------------------------------------
        "INTEGER.+" | "INTEGER.-" | "INTEGER.*" | "INTEGER.MAX" | "INTEGER.MIN" => fr(&[(Int, 2)], None, &[(Int, 2)], &[Int]),
        "INTEGER./" | "INTEGER.%" => fr(&[(Int, 2)], Some(|s| s.i[0] != 0), &[(Int, 2)], &[Int]),
        "INTEGER.<" | "INTEGER.>" => fr(&[(Int, 2)], None, &[(Int, 2)], &[Int, Bool]),
        "INTEGER.ABS" => fr(&[(Int, 1)], None, &[(Int, 1)], &[Int]),
        "INTEGER.FROMBOOLEAN" => fr(&[(Bool, 1)], None, &[(Bool, 1)], &[Bool, Int]),
        "INTEGER.FROMFLOAT" => fr(&[(Float, 1)], None, &[(Float, 1)], &[Float, Int]),
        "INTEGER.RAND" => fr(&[], Some(|s| s.cfg.min_random_integer < s.cfg.max_random_integer), &[], &[Int]),
        // ---- FLOAT -----------------------------------------------------------------------
        "FLOAT.+" | "FLOAT.-" | "FLOAT.*" | "FLOAT.MAX" | "FLOAT.MIN" => fr(&[(Float, 2)], None, &[(Float, 2)], &[Float]),
        "FLOAT./" | "FLOAT.%" => fr(&[(Float, 2)], Some(|s| fl(s.f[0]) != 0.0), &[(Float, 2)], &[Float]),
        "FLOAT.<" | "FLOAT.>" => fr(&[(Float, 2)], None, &[(Float, 2)], &[Float, Bool]),
        "FLOAT.SIN" | "FLOAT.COS" | "FLOAT.TAN" | "FLOAT.EXP" => fr(&[(Float, 1)], None, &[(Float, 1)], &[Float]),
        "FLOAT.FROMBOOLEAN" => fr(&[(Bool, 1)], None, &[(Bool, 1)], &[Bool, Float]),
        "FLOAT.FROMINTEGER" => fr(&[(Int, 1)], None, &[(Int, 1)], &[Int, Float]),
        "FLOAT.RAND" => fr(
            &[],
            Some(|s| fl(s.cfg.min_random_float) < fl(s.cfg.max_random_float) && fl(s.cfg.min_random_float).is_finite() && fl(s.cfg.max_random_float).is_finite()),
            &[],
            &[Float],
        ),
        // ---- NAME ------------------------------------------------------------------------
        "NAME.CAT" => fr(&[(Name, 2)], None, &[(Name, 2)], &[Name]),
        "NAME.QUOTE" => fr(&[], None, &[], &[Quote]),
        "NAME.RAND" | "NAME.RANDBOUNDNAME" => fr(&[], None, &[], &[Name]),
        "NAME.SEND" => fr(&[], None, &[], &[Send]),
        // ---- CODE ------------------------------------------------------------------------
        "CODE.APPEND" | "CODE.CONS" => fr(&[(Code, 2)], None, &[(Code, 2)], &[Code]),
        "CODE.ATOM" | "CODE.NULL" => fr(&[(Code, 1)], None, &[], &[Bool]),
        "CODE.CAR" => fr(&[(Code, 1)], Some(|s| s.c[0].is_list()), &[(Code, 1)], &[Code]),
        "CODE.CDR" => fr(&[(Code, 1)], None, &[(Code, 1)], &[Code]),
        "CODE.CONTAINER" | "CODE.LIST" => fr(&[(Code, 2)], None, &[], &[Code]),
        "CODE.CONTAINS" | "CODE.MEMBER" => fr(&[(Code, 2)], None, &[], &[Bool]),
        "CODE.DEFINITION" => fr(&[(Name, 1)], Some(|s| s.nb.contains_key(&s.n[0])), &[(Name, 1)], &[Name, Code]),
        "CODE.DISCREPANCY" | "CODE.POSITION" => fr(&[(Code, 2)], None, &[], &[Int]),
        "CODE.DO" | "CODE.DO*" => fr(&[(Code, 1)], None, &[], &[Exec]),
        "CODE.LOOP" => fr(&[(Code, 1), (Index, 1)], None, &[(Code, 1)], &[Code, Exec, Index]),
        "CODE.EXTRACT" | "CODE.NTH" => fr(&[(Int, 1), (Code, 1)], None, &[(Int, 1)], &[Int, Code]),
        "CODE.FROMBOOLEAN" => fr(&[(Bool, 1)], None, &[(Bool, 1)], &[Bool, Code]),
        "CODE.FROMFLOAT" => fr(&[(Float, 1)], None, &[(Float, 1)], &[Float, Code]),
        "CODE.FROMINTEGER" => fr(&[(Int, 1)], None, &[(Int, 1)], &[Int, Code]),
        "CODE.FROMNAME" => fr(&[(Name, 1)], None, &[(Name, 1)], &[Name, Code]),
        "CODE.IF" => fr(&[(Code, 2), (Bool, 1)], None, &[(Code, 2), (Bool, 1)], &[Code, Bool, Exec]),
        "CODE.INSERT" => fr(&[(Int, 1), (Code, 2)], None, &[(Int, 1)], &[Int, Code]),
        "CODE.LENGTH" | "CODE.SIZE" => fr(&[(Code, 1)], None, &[], &[Int]),
        "CODE.NOOP" => fr(&[], None, &[], &[]),
        "CODE.PRINT" => fr(&[(Code, 1)], None, &[], &[Name]),
        "CODE.QUOTE" => fr(&[(Exec, 1)], None, &[(Exec, 1)], &[Exec, Code]),
        "CODE.RAND" => fr(
            &[(Int, 1)],
            Some(|s| (s.i[0] as i64).abs().min((s.cfg.max_points_in_random_expressions as i64).abs()) >= 2),
            &[(Int, 1)],
            &[Int, Code],
        ),
        "CODE.SUBST" => fr(&[(Code, 3)], None, &[(Code, 3)], &[Code]),
        // ---- EXEC ------------------------------------------------------------------------
        "EXEC.CMD" => fr(
            &[(Int, 1)],
            Some(|s| s.i[0] > -1 && s.n.len() as i64 >= s.i[0] as i64 + 1),
            &[(Int, 1), (Name, ALLN)],
            &[Int, Name],
        ),
        "EXEC.IF" => fr(&[(Exec, 2), (Bool, 1)], None, &[(Exec, 2), (Bool, 1)], &[Exec, Bool]),
        "EXEC.K" => fr(&[(Exec, 2)], None, &[(Exec, 2)], &[Exec]),
        "EXEC.S" => fr(&[(Exec, 3)], None, &[(Exec, 3)], &[Exec]),
        "EXEC.Y" => fr(&[(Exec, 1)], None, &[], &[Exec]),
        "EXEC.LOOP" => fr(&[(Exec, 1), (Index, 1)], None, &[(Exec, 1)], &[Exec, Index]),
        // ---- INDEX -----------------------------------------------------------------------
        "INDEX.DEFINE" => fr(&[(Int, 1)], None, &[(Int, 1)], &[Int, Index]),
        "INDEX.CURRENT" | "INDEX.DESTINATION" => fr(&[(Index, 1)], None, &[], &[Int]),
        // "Increases the current value by one if current < destination. Otherwise ... NOOP"
        "INDEX.INCREASE" => fr(&[(Index, 1)], Some(|s| s.x[0].0 < s.x[0].1), &[], &[Index]),
        "INDEX.POP" => fr(&[], None, &[(Index, 1)], &[Index]),
        "INDEX.FLUSH" => fr(&[], None, &[(Index, ALLN)], &[Index]),
        // ---- vectors ---------------------------------------------------------------------
        "BOOLVECTOR.AND" | "BOOLVECTOR.OR" => fr(&[(BV, 2), (Int, 1)], None, &[(BV, 2), (Int, 1)], &[BV, Int]),
        "BOOLVECTOR.NOT" => fr(&[(BV, 1), (Int, 1)], None, &[(BV, 1), (Int, 1)], &[BV, Int]),
        // "INTVECTOR.*" and "INTVECTOR./" are not registered (README promises them); their pub fns
        // are exercised by direct calls under these names
        "INTVECTOR.+" | "INTVECTOR.-" | "INTVECTOR.*" | "INTVECTOR./" => fr(&[(IV, 2), (Int, 1)], None, &[(IV, 2), (Int, 1)], &[IV, Int]),
        "FLOATVECTOR.+" | "FLOATVECTOR.-" | "FLOATVECTOR.*" | "FLOATVECTOR./" => fr(&[(FV, 2), (Int, 1)], None, &[(FV, 2), (Int, 1)], &[FV, Int]),
        "BOOLVECTOR.GET" => fr(&[(Int, 1), (BV, 1)], Some(|s| !s.bv[0].is_empty()), &[(Int, 1)], &[Int, Bool]),
        "INTVECTOR.GET" => fr(&[(Int, 1), (IV, 1)], Some(|s| !s.iv[0].is_empty()), &[(Int, 1)], &[Int]),
        "FLOATVECTOR.GET" => fr(&[(Int, 1), (FV, 1)], Some(|s| !s.fv[0].is_empty()), &[(Int, 1)], &[Int, Float]),
        "BOOLVECTOR.SET" => fr(&[(Int, 1), (Bool, 1), (BV, 1)], Some(|s| !s.bv[0].is_empty()), &[(Int, 1), (Bool, 1)], &[Int, Bool, BV]),
        "INTVECTOR.SET" => fr(&[(Int, 2), (IV, 1)], Some(|s| !s.iv[0].is_empty()), &[(Int, 2)], &[Int, IV]),
        "FLOATVECTOR.SET" => fr(&[(Int, 1), (Float, 1), (FV, 1)], Some(|s| !s.fv[0].is_empty()), &[(Int, 1), (Float, 1)], &[Int, Float, FV]),
        "BOOLVECTOR.ONES" | "BOOLVECTOR.ZEROS" => fr(&[(Int, 1)], Some(|s| s.i[0] > 0), &[(Int, 1)], &[Int, BV]),
        "INTVECTOR.ONES" | "INTVECTOR.ZEROS" => fr(&[(Int, 1)], Some(|s| s.i[0] > 0), &[(Int, 1)], &[Int, IV]),
        "FLOATVECTOR.ONES" | "FLOATVECTOR.ZEROS" => fr(&[(Int, 1)], Some(|s| s.i[0] > 0), &[(Int, 1)], &[Int, FV]),
        "BOOLVECTOR.LENGTH" | "BOOLVECTOR.COUNT" => fr(&[(BV, 1)], None, &[], &[Int]),
        "INTVECTOR.LENGTH" | "INTVECTOR.SUM" => fr(&[(IV, 1)], None, &[], &[Int]),
        "FLOATVECTOR.LENGTH" => fr(&[(FV, 1)], None, &[], &[Int]),
        "FLOATVECTOR.SUM" => fr(&[(FV, 1)], None, &[], &[Float]),
        "INTVECTOR.MEAN" => fr(&[(IV, 1)], None, &[], &[Float]),
        "FLOATVECTOR.MEAN" => fr(&[(FV, 1)], None, &[], &[Float]),
        "BOOLVECTOR.SORT*ASC" | "BOOLVECTOR.SORT*DESC" => fr(&[(BV, 1)], None, &[], &[BV]),
        "INTVECTOR.SORT*ASC" | "INTVECTOR.SORT*DESC" => fr(&[(IV, 1)], None, &[], &[IV]),
        "FLOATVECTOR.SORT*ASC" | "FLOATVECTOR.SORT*DESC" => fr(&[(FV, 1)], None, &[], &[FV]),
        "BOOLVECTOR.ROTATE" => fr(&[(Bool, 1), (BV, 1)], None, &[(Bool, 1)], &[Bool, BV]),
        "INTVECTOR.ROTATE" => fr(&[(Int, 1), (IV, 1)], None, &[(Int, 1)], &[Int, IV]),
        "FLOATVECTOR.ROTATE" => fr(&[(Float, 1), (FV, 1)], None, &[(Float, 1)], &[Float, FV]),
        "INTVECTOR.APPEND" | "INTVECTOR.REMOVE" => fr(&[(IV, 1), (Int, 1)], None, &[(Int, 1)], &[Int, IV]),
        "FLOATVECTOR.APPEND" => fr(&[(FV, 1), (Float, 1)], None, &[(Float, 1)], &[Float, FV]),
        // documented: creates an empty INTVECTOR when there is none (handled in the unfired rule)
        "INTVECTOR.SET*INSERT" => fr(&[(Int, 1)], None, &[(Int, 1)], &[Int, IV]),
        "INTVECTOR.CONTAINS" => fr(&[(Int, 1), (IV, 1)], None, &[(Int, 1), (IV, 1)], &[Int, IV, Bool]),
        "INTVECTOR.BOOLINDEX" => fr(&[(BV, 1)], None, &[(BV, 1)], &[BV, IV]),
        "INTVECTOR.FROMINT" => fr(&[(Int, 1)], None, &[(Int, ALLN)], &[Int, IV]),
        "INTVECTOR.EMPTY" => fr(&[], None, &[], &[IV]),
        "FLOATVECTOR.EMPTY" => fr(&[], None, &[], &[FV]),
        "FLOATVECTOR.*SCALAR" => fr(&[(Float, 1), (FV, 1)], None, &[(Float, 1)], &[Float, FV]),
        "FLOATVECTOR.SINE" => fr(&[(Float, 3), (Int, 1)], Some(|s| s.i[0] >= 0), &[(Float, 3), (Int, 1)], &[Float, Int, FV]),
        "INTVECTOR.LOOP" => fr(&[(IV, 1), (Exec, 1)], Some(|s| !s.iv[0].is_empty()), &[(IV, 1), (Exec, 1)], &[IV, Exec, Int]),
        "BOOLVECTOR.RAND" => fr(&[(Int, 1), (Float, 1)], Some(|s| valid_bvrand(s.i[0], fl(s.f[0]))), &[(Int, 1), (Float, 1)], &[Int, Float, BV]),
        // size top, max 2nd, min 3rd
        "INTVECTOR.RAND" => fr(&[(Int, 3)], Some(|s| s.i[0] >= 0 && s.i[2] < s.i[1]), &[(Int, 3)], &[Int, IV]),
        // mean top, stddev 2nd
        "FLOATVECTOR.RAND" => fr(
            &[(Int, 1), (Float, 2)],
            Some(|s| s.i[0] >= 0 && fl(s.f[1]) >= 0.0 && fl(s.f[1]).is_finite()),
            &[(Int, 1), (Float, 2)],
            &[Int, Float, FV],
        ),
        // ---- LIST ------------------------------------------------------------------------
        "LIST.ADD" => fr(&[(IV, 1)], None, &[(IV, 1)], &[Bool, BV, Code, Exec, Float, FV, Int, IV, Name]),
        "LIST.GET" => fr(&[(Int, 1), (Code, 1)], Some(|s| s.c[clamp(s.i[0], s.c.len())].is_list()), &[(Int, 1)], &[Int, Exec]),
        "LIST.SET" => fr(&[(Int, 1), (IV, 1)], None, &[(Int, 1), (IV, 1)], &[Bool, BV, Code, Exec, Float, FV, Int, IV, Name]),
        "LIST.REMOVE" => fr(&[(Int, 1)], None, &[(Int, 1)], &[Int, Code]),
        "LIST.BVAL" => fr(&[(Int, 2), (Code, 1)], None, &[(Int, 2)], &[Int, Bool]),
        "LIST.IVAL" => fr(&[(Int, 2), (Code, 1)], None, &[(Int, 2)], &[Int]),
        "LIST.FVAL" => fr(&[(Int, 2), (Code, 1)], None, &[(Int, 2)], &[Int, Float]),
        "LIST.NEIGHBOR*IDS" => fr(
            &[(Int, 3), (Float, 1)],
            Some(|s| neighbor_params(s.i[0], s.i[1], s.i[2], fl(s.f[0])).is_some()),
            &[(Int, 3), (Float, 1)],
            &[Int, Float, IV],
        ),
        "LIST.NEIGHBOR*BVALS" => fr(
            &[(Int, 4), (Float, 1)],
            Some(|s| neighbor_params(s.i[1], s.i[2], s.i[3], fl(s.f[0])).is_some()),
            &[(Int, 4), (Float, 1)],
            &[Int, Float, BV],
        ),
        "LIST.NEIGHBOR*IVALS" => fr(
            &[(Int, 4), (Float, 1)],
            Some(|s| neighbor_params(s.i[1], s.i[2], s.i[3], fl(s.f[0])).is_some()),
            &[(Int, 4), (Float, 1)],
            &[Int, Float, IV],
        ),
        "LIST.NEIGHBOR*FVALS" => fr(
            &[(Int, 4), (Float, 1)],
            Some(|s| neighbor_params(s.i[1], s.i[2], s.i[3], fl(s.f[0])).is_some()),
            &[(Int, 4), (Float, 1)],
            &[Int, Float, FV],
        ),
        // ---- INPUT / OUTPUT --------------------------------------------------------------
        "INPUT.AVAILABLE" => fr(&[], None, &[], &[Bool]),
        "INPUT.READ" => fr(&[(Input, 1)], None, &[], &[BV, IV]),
        "INPUT.GET" => fr(&[(Int, 1), (Input, 1)], Some(|s| !s.inp[0].1.is_empty()), &[(Int, 1)], &[Int, Bool]),
        "INPUT.NEXT" => fr(&[], None, &[(Input, 1)], &[Input]),
        "INPUT.STACKDEPTH" | "OUTPUT.STACKDEPTH" | "GRAPH.STACKDEPTH" => fr(&[], None, &[], &[Int]),
        "OUTPUT.WRITE" => fr(&[(BV, 1), (IV, 1)], None, &[(BV, 1), (IV, 1)], &[BV, IV, Output]),
        "OUTPUT.FLUSH" => fr(&[], None, &[(Output, ALLN)], &[Output]),
        // ---- GRAPH -----------------------------------------------------------------------
        "GRAPH.ADD" => fr(&[], None, &[], &[Graph]),
        "GRAPH.DUP" => fr(&[(Graph, 1)], None, &[], &[Graph]),
        "GRAPH.NODE*ADD" => fr(&[(Graph, 1), (Int, 1)], None, &[(Int, 1)], &[Int, Graph]),
        "GRAPH.NODE*GETSTATE" => fr(
            &[(Graph, 1), (Int, 1)],
            Some(|s| s.i[0] > 0 && s.g[0].has_node(s.i[0] as usize)),
            &[(Int, 1)],
            &[Int],
        ),
        // "If the id does not exist this acts as NOOP" (operands are consumed)
        "GRAPH.NODE*SETSTATE" => fr(&[(Graph, 1), (Int, 2)], Some(|s| s.i[1] > 0 && s.g[0].has_node(s.i[1] as usize)), &[(Int, 2)], &[Int, Graph]),
        "GRAPH.NODE*STATESWITCH" => fr(
            &[(Graph, 1), (IV, 1), (BV, 1), (Int, 2)],
            None,
            &[(IV, 1), (BV, 1), (Int, 2)],
            &[IV, BV, Int, Graph],
        ),
        "GRAPH.NODES" => fr(&[(Graph, 1), (IV, 1)], None, &[(IV, 1)], &[IV]),
        "GRAPH.NODES*HISTORY" => fr(
            &[(Int, 1), (IV, 1)],
            Some(|s| s.i[0] >= 0 && (s.i[0] as usize) < s.g.len()),
            &[(Int, 1), (IV, 1)],
            &[Int, IV],
        ),
        "GRAPH.NODE*HISTORY" => fr(
            &[(Int, 2)],
            Some(|s| s.i[0] >= 0 && (s.i[0] as usize) < s.g.len() && s.i[1] >= 0 && s.g[s.i[0] as usize].has_node(s.i[1] as usize)),
            &[(Int, 2)],
            &[Int],
        ),
        "GRAPH.NODE*PREDECESSORS" | "GRAPH.NODE*SUCCESSORS" | "GRAPH.NODE*NEIGHBORS" => {
            fr(&[(Graph, 1), (IV, 1), (Int, 1)], Some(|s| s.i[0] > 0), &[(IV, 1), (Int, 1)], &[IV, Int])
        }
        // edges only between existing nodes, at most one per ordered pair; weights only of existing edges
        "GRAPH.EDGE*ADD" => fr(
            &[(Graph, 1), (Float, 1), (Int, 2)],
            Some(|s| s.i[0] > 0 && s.i[1] > 0 && s.g[0].has_node(s.i[0] as usize) && s.g[0].has_node(s.i[1] as usize) && s.g[0].weight(s.i[1] as usize, s.i[0] as usize).is_none()),
            &[(Float, 1), (Int, 2)],
            &[Float, Int, Graph],
        ),
        "GRAPH.EDGE*SETWEIGHT" => fr(
            &[(Graph, 1), (Float, 1), (Int, 2)],
            Some(|s| s.i[0] > 0 && s.i[1] > 0 && s.g[0].weight(s.i[1] as usize, s.i[0] as usize).is_some()),
            &[(Float, 1), (Int, 2)],
            &[Float, Int, Graph],
        ),
        "GRAPH.EDGE*GETWEIGHT" => fr(
            &[(Graph, 1), (Int, 2)],
            Some(|s| s.i[0] > 0 && s.i[1] > 0 && s.g[0].weight(s.i[1] as usize, s.i[0] as usize).is_some()),
            &[(Int, 2)],
            &[Int, Float],
        ),
        "GRAPH.EDGE*HISTORY" => fr(
            &[(Int, 3)],
            Some(|s| {
                s.i[0] >= 0 && (s.i[0] as usize) < s.g.len() && s.i[1] > 0 && s.i[2] > 0 && s.g[s.i[0] as usize].weight(s.i[2] as usize, s.i[1] as usize).is_some()
            }),
            &[(Int, 3)],
            &[Int, Float],
        ),
        "GRAPH.PRINT" => fr(&[(Graph, 1)], None, &[], &[Name]),
        // NaN weights never compare equal: with one present the diff may or may not be empty
        "GRAPH.PRINT*DIFF" => fr(&[(Graph, 2)], Some(|s| s.g[0] != s.g[1] || has_nan_weight(&s.g[0]) || has_nan_weight(&s.g[1])), &[], &[Name]),
        _ => return None,
    })
}

/// Frame oracle. Returns Err(class, text) on a violation.
/// - always: components outside writes/pops identical
/// - unfired: every component is its pre minus at most `pops` items from the top; nothing added
pub fn check_frame(name: &str, fr: &Frame, pre: &Snap, post: &Snap) -> Result<bool, (String, String)> {
    let fired = fr.fires(pre);
    if fired {
        for c in ALL_COMPS.iter() {
            if !fr.may_write(*c) && fr.max_pop(*c) == 0 && !pre.comp_eq(post, *c) {
                return Err((
                    format!("fired-bystander-{:?}", c),
                    format!("{} fired but changed bystander {:?}: {} -> {}", name, c, pre.comp_str(*c), post.comp_str(*c)),
                ));
            }
        }
        Ok(true)
    } else {
        for c in ALL_COMPS.iter() {
            let max = fr.max_pop(*c);
            let mut ok = post.is_pre_minus_top(pre, *c, max);
            if !ok && name == "INTVECTOR.SET*INSERT" && *c == St::IV && pre.iv.is_empty() && post.iv == vec![Vec::<i32>::new()] {
                // documented: "If no INTVECTOR item exists, a new one will be created"
                ok = true;
            }
            if !ok {
                return Err((
                    format!("unfired-{:?}", c),
                    format!("{} lacked an operand/guard but {:?} changed beyond its own operands: {} -> {}", name, c, pre.comp_str(*c), post.comp_str(*c)),
                ));
            }
        }
        Ok(false)
    }
}
