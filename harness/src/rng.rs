//! Small deterministic PRNG (splitmix64 seeding + xoshiro256**), so every harness-side random
//! choice is reproducible from VERIF_SEED / shard / case index. No external crate needed.

use std::cell::RefCell;
use std::sync::Arc;

#[derive(Clone, Debug)]
pub struct Rng {
    s: [u64; 4],
    /// decision tape (fuzz mode): the first draws are read from it, 8 bytes each
    tape: Option<Arc<Vec<u8>>>,
    pos: usize,
    back: usize,
    mix: u64,
}

thread_local! {
    static TAPE: RefCell<Option<Arc<Vec<u8>>>> = RefCell::new(None);
}

/// Fuzz mode: while a tape is set on this thread, every `Rng` created here reads its first
/// draws from the tape (from offset 0, unmodified: re-deriving a stream replays it; streams with
/// different seeds share the tape prefix and differ in their continuation) and continues with
/// the ordinary generator seeded from seed and tape contents once the tape is used up. A
/// coverage-guided fuzzer mutating the tape thereby mutates the decisions of every generator.
pub fn set_tape(t: Option<Vec<u8>>) {
    TAPE.with(|c| *c.borrow_mut() = t.map(Arc::new));
}
pub fn tape_bytes() -> Option<Vec<u8>> {
    TAPE.with(|c| c.borrow().as_ref().map(|a| a.as_ref().clone()))
}
pub fn tape_active() -> bool {
    TAPE.with(|c| c.borrow().is_some())
}

fn splitmix(x: &mut u64) -> u64 {
    *x = x.wrapping_add(0x9E3779B97F4A7C15);
    let mut z = *x;
    z = (z ^ (z >> 30)).wrapping_mul(0xBF58476D1CE4E5B9);
    z = (z ^ (z >> 27)).wrapping_mul(0x94D049BB133111EB);
    z ^ (z >> 31)
}

impl Rng {
    pub fn new(seed: u64) -> Self {
        let tape = TAPE.with(|c| c.borrow().clone());
        let mut x = seed ^ 0xD1B54A32D192ED03;
        let mut mix = 0;
        if let Some(t) = &tape {
            let mut h: u64 = 0xcbf29ce484222325;
            for b in t.iter() {
                h ^= *b as u64;
                h = h.wrapping_mul(0x100000001b3);
            }
            // no mixing of tape bytes: a raw draw (`next_u64() as i32`, `f32::from_bits`) must carry the
            // tape's bytes unchanged, so that the fuzzer's compare feedback (value profile, table of
            // recent compares) can plant the constants pushr compares against into operands
            mix = 0;
            x ^= h ^ seed.rotate_left(17);
        }
        let s = [splitmix(&mut x), splitmix(&mut x), splitmix(&mut x), splitmix(&mut x)];
        Rng { s, tape, pos: 0, back: usize::MAX, mix }
    }
    /// Derive an independent stream (e.g. per case) from a base seed and several labels.
    pub fn derive(seed: u64, labels: &[u64]) -> Self {
        let mut x = seed;
        for l in labels {
            x = splitmix(&mut x) ^ l.wrapping_mul(0xA24BAED4963EE407);
        }
        Rng::new(x)
    }
    pub fn next_u64(&mut self) -> u64 {
        if let Some(t) = &self.tape {
            // raw 64-bit draws (operand VALUES) are read from the back of the tape, small decisions
            // (draw_mod) from the front: values stay inside the tape however many decisions precede
            // them. The last 8 bytes are the case index (fuzz.rs).
            if self.back == usize::MAX {
                self.back = t.len().saturating_sub(8);
            }
            if self.back >= self.pos + 8 {
                self.back -= 8;
                let mut b = [0u8; 8];
                b.copy_from_slice(&t[self.back..self.back + 8]);
                return u64::from_le_bytes(b) ^ self.mix;
            }
        }
        let r = self.s[1].wrapping_mul(5).rotate_left(7).wrapping_mul(9);
        let t = self.s[1] << 17;
        self.s[2] ^= self.s[0];
        self.s[3] ^= self.s[1];
        self.s[1] ^= self.s[2];
        self.s[0] ^= self.s[3];
        self.s[2] ^= t;
        self.s[3] = self.s[3].rotate_left(45);
        r
    }
    /// tape mode: a decision among `n` alternatives consumes only as many tape bytes as it needs
    /// (1 for n <= 256, 2 for n <= 65536, else 8), so that a tape of a few hundred bytes covers
    /// the few hundred decisions of a case and raw operand draws stay inside the tape
    fn draw_mod(&mut self, n: u64) -> u64 {
        if let Some(t) = &self.tape {
            let w = if n <= 256 { 1 } else if n <= 65536 { 2 } else { 8 };
            let limit = if self.back == usize::MAX { t.len().saturating_sub(8) } else { self.back };
            if w < 8 && self.pos + w <= limit {
                let mut v = 0u64;
                for k in 0..w {
                    v |= (t[self.pos + k] as u64) << (8 * k);
                }
                self.pos += w;
                return v % n;
            }
        }
        self.next_u64() % n
    }
    /// uniform in 0..n (n > 0)
    pub fn below(&mut self, n: usize) -> usize {
        if n <= 1 {
            return 0;
        }
        self.draw_mod(n as u64) as usize
    }
    /// uniform in lo..=hi
    pub fn range(&mut self, lo: i64, hi: i64) -> i64 {
        if hi <= lo {
            return lo;
        }
        lo + self.draw_mod((hi - lo + 1) as u64) as i64
    }
    pub fn chance(&mut self, num: u32, den: u32) -> bool {
        self.draw_mod(den.max(1) as u64) < num as u64
    }
    pub fn bool(&mut self) -> bool {
        self.draw_mod(2) == 1
    }
    pub fn pick<'a, T>(&mut self, v: &'a [T]) -> &'a T {
        &v[self.below(v.len())]
    }
    pub fn unit_f32(&mut self) -> f32 {
        (self.next_u64() >> 40) as f32 / (1u64 << 24) as f32
    }
    pub fn shuffle<T>(&mut self, v: &mut Vec<T>) {
        for i in (1..v.len()).rev() {
            let j = self.below(i + 1);
            v.swap(i, j);
        }
    }
}

/// FNV-1a style 64 bit hash used for coverage keys and digests.
pub fn hash_str(s: &str) -> u64 {
    let mut h: u64 = 0xcbf29ce484222325;
    for b in s.as_bytes() {
        h ^= *b as u64;
        h = h.wrapping_mul(0x100000001b3);
    }
    h
}
