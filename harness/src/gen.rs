//! Seeded generators: boundary pools, values, item trees, whole states, programs.

use crate::rng::Rng;
use crate::snap::*;
use pushr::push::configuration::PushConfiguration;
use std::collections::BTreeMap;

pub const INT_POOL: [i32; 16] = [i32::MIN, i32::MIN + 1, -1000, -100, -3, -2, -1, 0, 1, 2, 3, 7, 100, 1000, i32::MAX - 1, i32::MAX];
pub const FLOAT_POOL: [f32; 16] = [
    f32::NEG_INFINITY,
    f32::MIN,
    -1.0e30,
    -1.5,
    -1.0,
    -0.0,
    0.0,
    1.0e-40,
    0.5,
    1.0,
    2.5,
    3.0,
    1.0e30,
    f32::MAX,
    f32::INFINITY,
    f32::NAN,
];
/// values off the boundaries: powers of two and their neighbours, a narrow mid range
pub const MID_POOL: [i32; 22] = [15, 16, 17, 31, 32, 33, 63, 64, 65, 255, 256, 257, 1000, 1023, 1024, 1025, 1050, 1099, 1100, 65535, 65536, 16777217];
pub const NAME_POOL: [&str; 12] = ["a", "b", "c", "x1", "foo", "Bar-2", "A", "FOO", "bar-2", "Foo", "f(x)", "x)"];

/// Literals harvested from pushr's own (non-test) source by ./check (lib/literals.py, file named by
/// PVMON_LITERALS): a behaviour that depends on one specific value has that value in the source, so
/// the pools below contain it, its neighbours and its negation. Empty when the variable is not set.
pub struct Lits {
    pub ints: Vec<i32>,
    pub floats: Vec<f32>,
    pub names: Vec<String>,
}
pub fn lits() -> &'static Lits {
    static L: std::sync::OnceLock<Lits> = std::sync::OnceLock::new();
    L.get_or_init(|| {
        let mut l = Lits { ints: vec![], floats: vec![], names: vec![] };
        if let Ok(p) = std::env::var("PVMON_LITERALS") {
            if let Ok(text) = std::fs::read_to_string(&p) {
                for line in text.lines() {
                    let (k, v) = match line.split_once(' ') {
                        Some(x) => x,
                        None => continue,
                    };
                    match k {
                        "i" => {
                            if let Ok(x) = v.parse::<i64>() {
                                for y in [x, x - 1, x + 1, -x] {
                                    if y >= i32::MIN as i64 && y <= i32::MAX as i64 {
                                        l.ints.push(y as i32);
                                    }
                                }
                                // literals are also thresholds of f32 comparisons
                                l.floats.push(x as f32);
                            }
                        }
                        "f" => {
                            if let Ok(x) = v.parse::<f64>() {
                                let f = x as f32;
                                l.floats.extend([f, -f, f32::from_bits(f.to_bits().wrapping_add(1)), f32::from_bits(f.to_bits().wrapping_sub(1))]);
                                if f.fract() == 0.0 && f.abs() < 2.0e9 {
                                    l.ints.push(f as i32);
                                }
                            }
                        }
                        "s" => {
                            let ok = !v.is_empty() && v.len() <= 31 && v.chars().enumerate().all(|(i, c)| c == '_' || c.is_ascii_alphabetic() || (i > 0 && c.is_ascii_digit()));
                            if ok && v != "TRUE" && v != "FALSE" {
                                l.names.push(v.to_string());
                            }
                        }
                        _ => {}
                    }
                }
            }
        }
        // special points of the elementary functions (not literals anywhere, computed values):
        // multiples of pi/2, e, ln 2, sqrt 2, thirds and tenths, each with both ulp neighbours
        use std::f32::consts::*;
        for f in [FRAC_PI_2, PI, 3.0 * FRAC_PI_2, TAU, FRAC_PI_4, E, LN_2, SQRT_2, 1.0 / 3.0, 0.1, 0.2, 0.1 + 0.2, 0.3, 16777216.0, 2147483648.0, 4294967296.0] {
            l.floats.extend([f, -f, f32::from_bits(f.to_bits() + 1), f32::from_bits(f.to_bits() - 1)]);
        }
        l.ints.sort();
        l.ints.dedup();
        l.floats.retain(|f| !f.is_nan());
        l.floats.sort_by(|a, b| a.total_cmp(b));
        l.floats.dedup_by(|a, b| a.to_bits() == b.to_bits());
        l.names.sort();
        l.names.dedup();
        l
    })
}

/// a nesting depth / length from a heavy tail: powers of two and their neighbours, every source
/// literal in 16..=2000 and its neighbours (limits and guards are written as literals)
pub fn depth_tail(r: &mut Rng) -> usize {
    let mut c: Vec<usize> = vec![20, 33, 63, 64, 65, 100, 127, 128, 129, 130, 200, 255, 256, 257, 258, 300, 400, 511, 512, 513, 1000];
    let mut big: Vec<usize> = vec![2049, 4097];
    for v in lits().ints.iter() {
        if *v >= 16 && *v <= 1100 {
            c.push(*v as usize);
        } else if *v > 1100 && *v <= 4200 {
            big.push(*v as usize);
        }
    }
    // the expensive depths (cost grows faster than linearly) one time in eight
    if r.chance(1, 8) {
        *r.pick(&big)
    } else {
        *r.pick(&c)
    }
}

/// wrap `inner` into `d` nested lists, leaving a sibling atom behind at some levels on the way out
/// (so that a level closed too early or too late changes where the siblings end up)
pub fn deep_wrap(r: &mut Rng, inner: SItem, d: usize) -> SItem {
    let mut cur = inner;
    for level in 0..d {
        let mut v = vec![cur];
        if r.chance(1, 6) || level + 1 == d {
            v.push(SItem::Int(level as i32));
        }
        if r.chance(1, 12) {
            v.insert(0, SItem::Bool(level % 2 == 0));
        }
        cur = SItem::List(v);
    }
    cur
}

#[derive(Clone, Copy, Debug, PartialEq)]
pub enum Vals {
    /// values from the boundary pools only
    Boundary,
    /// small well-behaved values only
    Small,
    /// a mix of pool, small and arbitrary values
    Mixed,
}

pub fn int(r: &mut Rng, m: Vals) -> i32 {
    match m {
        Vals::Boundary => *r.pick(&INT_POOL),
        Vals::Small => r.range(-12, 12) as i32,
        Vals::Mixed => match r.below(13) {
            0..=3 => *r.pick(&INT_POOL),
            4..=7 => r.range(-12, 12) as i32,
            8 => {
                let v = *r.pick(&MID_POOL);
                if r.bool() { v } else { -v }
            }
            9 => r.range(-1200, 1200) as i32,
            10 if !lits().ints.is_empty() => *r.pick(&lits().ints),
            _ => r.next_u64() as i32,
        },
    }
}

/// floats on a 1/8 grid print exactly with three decimals
pub fn grid_float(r: &mut Rng) -> f32 {
    r.range(-80, 80) as f32 / 8.0
}

/// "print twins": floats that agree in the three printed decimals and differ in value (and +0.0 /
/// -0.0 / a tiny positive): anything that compares by printed text instead of by value confuses them
pub fn twin_float(r: &mut Rng) -> f32 {
    let base = *r.pick(&[0.25f32, 0.5, 1.5, -2.75, 100.0, 0.123, 0.0, -0.0]);
    let off = *r.pick(&[0.0f32, 0.0001, 0.0004, -0.0003, 0.00049, 0.0002]);
    base + off
}

pub fn float(r: &mut Rng, m: Vals) -> f32 {
    match m {
        Vals::Boundary => *r.pick(&FLOAT_POOL),
        Vals::Small => grid_float(r),
        Vals::Mixed => match r.below(12) {
            0..=3 => *r.pick(&FLOAT_POOL),
            4..=7 => grid_float(r),
            9 => twin_float(r),
            8 if !lits().floats.is_empty() => *r.pick(&lits().floats),
            _ => {
                let f = f32::from_bits(r.next_u64() as u32);
                f
            }
        },
    }
}

pub fn name(r: &mut Rng) -> String {
    match r.below(60) {
        2 if !lits().names.is_empty() => r.pick(&lits().names).to_string(),
        0 => r.pick(&["é", "名前", "a\u{301}b", "naïve-€"]).to_string(),
        1 => {
            // long names around byte-length boundaries, with multi-byte characters in them
            let target = *r.pick(&[255usize, 256, 257, 4096, 65534, 65535, 65536, 65537]);
            let unit = *r.pick(&["aé", "x", "é", "ab€"]);
            let mut s = String::with_capacity(target + 4);
            while s.len() < target {
                s.push_str(unit);
            }
            s
        }
        _ => r.pick(&NAME_POOL).to_string(),
    }
}

pub fn bvec(r: &mut Rng, maxlen: usize) -> Vec<bool> {
    let n = r.below(maxlen + 1);
    (0..n).map(|_| r.bool()).collect()
}
pub fn ivec(r: &mut Rng, maxlen: usize, m: Vals) -> Vec<i32> {
    let n = r.below(maxlen + 1);
    (0..n).map(|_| int(r, m)).collect()
}
pub fn fvec(r: &mut Rng, maxlen: usize, m: Vals) -> Vec<u32> {
    let n = r.below(maxlen + 1);
    (0..n).map(|_| fb(float(r, m))).collect()
}

/// What atoms an item tree may contain.
#[derive(Clone, Copy, Debug)]
pub struct ItemOpts {
    pub vals: Vals,
    pub instrs: bool,
    pub names: bool,
    pub vectors: bool,
    pub floats: bool,
    pub max_children: usize,
}

impl ItemOpts {
    pub fn all(vals: Vals) -> ItemOpts {
        ItemOpts { vals, instrs: true, names: true, vectors: true, floats: true, max_children: 4 }
    }
}

pub fn atom(r: &mut Rng, o: &ItemOpts, instr_names: &[String]) -> SItem {
    loop {
        match r.below(9) {
            0 | 1 => return SItem::Int(int(r, o.vals)),
            2 => return SItem::Bool(r.bool()),
            3 if o.floats => return SItem::Float(fb(float(r, o.vals))),
            4 | 5 if o.instrs && !instr_names.is_empty() => return SItem::Instr(r.pick(instr_names).clone()),
            6 if o.names => return SItem::Name(name(r)),
            7 if o.vectors => {
                return match r.below(3) {
                    0 => SItem::BV(bvec(r, 4)),
                    1 => SItem::IV(ivec(r, 4, o.vals)),
                    _ => SItem::FV(fvec(r, 4, o.vals)),
                }
            }
            _ => continue,
        }
    }
}

/// random tree of nesting depth <= depth
pub fn item(r: &mut Rng, depth: usize, o: &ItemOpts, instr_names: &[String]) -> SItem {
    if depth == 0 || r.chance(2, 5) {
        atom(r, o, instr_names)
    } else {
        let n = r.below(o.max_children + 1);
        SItem::List((0..n).map(|_| item(r, depth - 1, o, instr_names)).collect())
    }
}

/// random tree with at most `budget` points (never exceeds it)
pub fn item_budget(r: &mut Rng, budget: usize, depth: usize, o: &ItemOpts, instr_names: &[String]) -> SItem {
    if budget <= 1 || depth == 0 || r.chance(1, 4) {
        return atom(r, o, instr_names);
    }
    let mut left = budget - 1;
    let mut kids = vec![];
    while left > 0 && kids.len() < o.max_children.max(1) * 2 && !r.chance(1, 6) {
        let b = 1 + r.below(left.min(8));
        let k = item_budget(r, b, depth - 1, o, instr_names);
        left = left.saturating_sub(k.points());
        kids.push(k);
    }
    SItem::List(kids)
}

#[derive(Clone, Copy, Debug)]
pub struct StateOpts {
    pub vals: Vals,
    /// usual maximum stack depth; one state in eight is "big": some stacks up to 40 deep,
    /// vectors up to 40 long, code trees up to ~80 points and nesting 8
    pub max_depth: usize,
    pub graphs: bool,
    pub io: bool,
    pub bindings: bool,
    pub flags: bool,
    pub random_cfg: bool,
}

impl StateOpts {
    pub fn rich(vals: Vals) -> StateOpts {
        StateOpts { vals, max_depth: 4, graphs: true, io: true, bindings: true, flags: true, random_cfg: false }
    }
    pub fn plain(vals: Vals, max_depth: usize) -> StateOpts {
        StateOpts { vals, max_depth, graphs: false, io: false, bindings: false, flags: false, random_cfg: false }
    }
}

pub fn sgraph_spec(r: &mut Rng, m: Vals) -> SGraph {
    let n = r.below(5);
    let mut g = SGraph::default();
    for k in 0..n {
        g.nodes.push((k + 1, if r.bool() { r.range(0, 3) as i32 } else { int(r, m) }));
    }
    if n > 0 {
        for _ in 0..r.below(2 * n + 1) {
            let o = 1 + r.below(n);
            let d = 1 + r.below(n);
            if g.weight(o, d).is_none() {
                g.edges.push((d, o, fb(grid_float(r))));
            }
        }
    }
    g.edges.sort();
    g
}

pub fn cfg(r: &mut Rng) -> SCfg {
    let mut c = SCfg::of(&PushConfiguration::new());
    if r.bool() {
        // min < max always (the statement's envelope), including the widest bounds
        match r.below(4) {
            0 => {
                c.min_random_integer = i32::MIN;
                c.max_random_integer = i32::MAX;
            }
            1 => {
                let a = int(r, Vals::Mixed);
                let b = int(r, Vals::Mixed);
                if a != b {
                    c.min_random_integer = a.min(b);
                    c.max_random_integer = a.max(b);
                }
            }
            _ => {}
        }
        match r.below(4) {
            0 => {
                c.min_random_float = fb(f32::MIN);
                c.max_random_float = fb(f32::MAX);
            }
            1 => {
                let a = grid_float(r);
                let b = grid_float(r);
                if a != b {
                    c.min_random_float = fb(a.min(b));
                    c.max_random_float = fb(a.max(b));
                }
            }
            _ => {}
        }
    }
    c.max_points_in_random_expressions = *r.pick(&[-25, 0, 1, 2, 3, 10, 25, 60]);
    c.new_erc_name_probability = fb(*r.pick(&[0.0, 0.001, 0.5, 1.0]));
    c
}

/// A random snapshot; `build_state` turns it into a real PushState (graph ids get fresh values).
pub fn snap(r: &mut Rng, o: &StateOpts, instr_names: &[String]) -> Snap {
    let mut s = Snap::empty();
    let io = ItemOpts::all(o.vals);
    let big = o.max_depth >= 3 && r.chance(1, 8);
    let vmax = if big { 40 } else { 5 };
    let d = |r: &mut Rng| if big && r.chance(1, 3) { r.below(41) } else { r.below(o.max_depth + 1) };
    let n = d(r);
    s.b = (0..n).map(|_| r.bool()).collect();
    let n = d(r) + if r.bool() { 2 } else { 0 };
    s.i = (0..n).map(|_| int(r, o.vals)).collect();
    let n = d(r);
    s.f = (0..n).map(|_| fb(float(r, o.vals))).collect();
    let n = d(r);
    s.n = (0..n).map(|_| name(r)).collect();
    let n = d(r);
    s.c = (0..n)
        .map(|_| {
            if big && r.chance(1, 4) {
                let b = 20 + r.below(60);
                item_budget(r, b, 8, &io, instr_names)
            } else {
                item(r, 3, &io, instr_names)
            }
        })
        .collect();
    let n = d(r);
    s.e = (0..n).map(|_| item(r, 2, &io, instr_names)).collect();
    let n = r.below(3);
    s.x = (0..n)
        .map(|_| {
            let dest = r.below(6);
            (r.below(dest + 2), dest)
        })
        .collect();
    let n = d(r);
    s.bv = (0..n).map(|_| bvec(r, vmax)).collect();
    let n = d(r);
    s.iv = (0..n).map(|_| ivec(r, vmax, o.vals)).collect();
    let n = d(r);
    s.fv = (0..n).map(|_| fvec(r, vmax, o.vals)).collect();
    if o.io {
        for _ in 0..r.below(4) {
            s.inp.push((ivec(r, 3, o.vals), bvec(r, 4)));
        }
        for _ in 0..r.below(4) {
            s.out.push((ivec(r, 3, o.vals), bvec(r, 4)));
        }
    }
    if o.graphs {
        for _ in 0..r.below(4) {
            let g = if !s.g.is_empty() && r.chance(2, 3) {
                // a snapshot-like relative of the graph below: same node labels, a few edits
                let mut g = s.g[s.g.len() - 1].clone();
                for _ in 0..r.below(4) {
                    match r.below(4) {
                        0 if !g.nodes.is_empty() => {
                            let k = r.below(g.nodes.len());
                            g.nodes[k].1 = r.range(0, 3) as i32;
                        }
                        1 if !g.nodes.is_empty() => {
                            let (o, d) = (g.nodes[r.below(g.nodes.len())].0, g.nodes[r.below(g.nodes.len())].0);
                            if g.weight(o, d).is_none() {
                                g.edges.push((d, o, fb(grid_float(r))));
                                g.edges.sort();
                            }
                        }
                        2 if !g.edges.is_empty() => {
                            let k = r.below(g.edges.len());
                            g.edges.remove(k);
                        }
                        _ => {
                            let id = g.nodes.iter().map(|(k, _)| *k).max().unwrap_or(0) + 1;
                            g.nodes.push((id, r.range(0, 3) as i32));
                        }
                    }
                }
                g
            } else {
                sgraph_spec(r, o.vals)
            };
            s.g.push(g);
        }
    }
    if o.bindings {
        let mut nb = BTreeMap::new();
        for _ in 0..r.below(4) {
            nb.insert(name(r), item(r, 2, &io, instr_names));
        }
        s.nb = nb;
    }
    if o.flags {
        s.q = r.chance(1, 6);
        s.s = r.chance(1, 6);
    }
    if o.random_cfg {
        s.cfg = cfg(r);
    }
    // RELATED values across and within stacks (one state in four gets some): operands that are
    // equal to each other, a bound name lying on the NAME stack, a loop index equal to two INTEGER
    // operands, the same vector / code item twice - independent draws almost never line these up
    if r.chance(1, 4) {
        for _ in 0..1 + r.below(2) {
            match r.below(8) {
                0 if s.i.len() >= 2 => s.i[1] = s.i[0],
                1 if s.f.len() >= 2 => s.f[1] = s.f[0],
                2 if !s.nb.is_empty() => {
                    let keys: Vec<String> = s.nb.keys().cloned().collect();
                    s.n.insert(0, r.pick(&keys).clone());
                }
                3 if s.i.len() >= 2 && s.i[0] >= 0 && s.i[1] >= 0 && s.i[0] < 1000 && s.i[1] < 1000 => {
                    s.x.insert(0, (s.i[0] as usize, s.i[1] as usize));
                }
                4 if s.iv.len() >= 2 => s.iv[1] = s.iv[0].clone(),
                5 if s.fv.len() >= 2 => s.fv[1] = s.fv[0].clone(),
                6 if s.c.len() >= 2 => s.c[1] = s.c[0].clone(),
                7 if !s.c.is_empty() && !s.e.is_empty() => s.e[0] = s.c[0].clone(),
                _ => {}
            }
        }
    }
    s
}

/// A random program: a list whose atoms are drawn from the registry, the literal pools, names
/// (bound and unbound) and vector literals; nesting <= depth; about `points` points.
pub fn program(r: &mut Rng, points: usize, depth: usize, vals: Vals, instr_names: &[String]) -> SItem {
    let o = ItemOpts { vals, instrs: true, names: true, vectors: true, floats: true, max_children: 6 };
    let mut kids = vec![];
    let mut left = points.max(1);
    while left > 0 {
        let b = 1 + r.below(left.min(12));
        let k = if r.chance(3, 5) {
            // instruction-heavy: that is where the behaviour is
            if r.chance(2, 3) && !instr_names.is_empty() {
                SItem::Instr(r.pick(instr_names).clone())
            } else {
                atom(r, &o, instr_names)
            }
        } else {
            item_budget(r, b, depth, &o, instr_names)
        };
        left = left.saturating_sub(k.points());
        kids.push(k);
    }
    SItem::List(kids)
}

/// Render an item as program text the parser understands (floats with enough digits to
/// round-trip; names as they are).
pub fn render(it: &SItem) -> String {
    match it {
        SItem::List(v) => {
            let mut s = String::from("(");
            for x in v {
                s.push(' ');
                s.push_str(&render(x));
            }
            s.push_str(" )");
            s
        }
        SItem::Instr(n) | SItem::Name(n) => n.clone(),
        SItem::Bool(b) => if *b { "TRUE".into() } else { "FALSE".into() },
        SItem::Int(i) => i.to_string(),
        SItem::Float(f) => {
            let x = fl(*f);
            if x.is_nan() {
                "NaN".into()
            } else if x.is_infinite() {
                if x > 0.0 { "inf".into() } else { "-inf".into() }
            } else {
                let s = format!("{:?}", x);
                s
            }
        }
        SItem::BV(v) => format!("BOOL[{}]", v.iter().map(|b| if *b { "1" } else { "0" }).collect::<Vec<_>>().join(",")),
        SItem::IV(v) => format!("INT[{}]", v.iter().map(|b| b.to_string()).collect::<Vec<_>>().join(",")),
        SItem::FV(v) => format!("FLOAT[{}]", v.iter().map(|b| format!("{:?}", fl(*b))).collect::<Vec<_>>().join(",")),
        SItem::Index(c, d) => format!("{}/{}", c, d),
        SItem::Graph(_) => "GRAPH".into(),
    }
}
