//! C01 — any Push program executes without crashing the host (R monitor).
//! (a) per-instruction boundary sweep, (b) generated programs, (c) programs from pushr's own
//! generator; (b),(c) both single-stepped and through run(). Oracle: returns normally.
//! Aborts / stack overflows / hangs are caught by the supervisor (./check) via the case marker.

use crate::alloc;
use crate::gen::{self, StateOpts, Vals};
use crate::mon::{guarded, new_iset, panic_sig, sorted_cache, step_named};
use crate::rng::Rng;
use crate::snap::*;
use crate::Ctx;
use pushr::push::instructions::{Instruction, InstructionCache, InstructionSet};
use pushr::push::interpreter::PushInterpreter;
use pushr::push::random::CodeGenerator;
use pushr::push::state::PushState;
use std::cell::{Cell, RefCell};
use std::collections::HashMap;

pub const ENVELOPE_SIZE: i32 = 5000;
pub const ENVELOPE_TOPOLOGY: i32 = 70_000;
pub const ENVELOPE_HEAP: usize = 96 << 20;

thread_local! {
    pub static ENV_EXIT: Cell<bool> = Cell::new(false);
    pub static LAST_INSTR: RefCell<String> = RefCell::new(String::new());
    pub static EXEC_COUNTS: RefCell<HashMap<String, u64>> = RefCell::new(HashMap::new());
}

/// Is the step about to be taken inside the statement's resource envelope ("operand-controlled
/// allocation sizes and total code size bounded")? Negative sizes are INSIDE: nothing should
/// be allocated for them at all.
pub fn envelope_ok(name: &str, s: &PushState) -> bool {
    let top = s.int_stack.get(0).copied();
    let second = s.int_stack.get(1).copied();
    let size_top = name.ends_with(".ONES") || name.ends_with(".ZEROS") || name == "BOOLVECTOR.RAND" || name == "INTVECTOR.RAND" || name == "FLOATVECTOR.RAND" || name == "FLOATVECTOR.SINE";
    if size_top {
        if let Some(v) = top {
            if v > ENVELOPE_SIZE {
                return false;
            }
        }
    }
    if name == "LIST.NEIGHBOR*IDS" {
        if let Some(v) = top {
            if v > ENVELOPE_TOPOLOGY {
                return false;
            }
        }
    }
    if name.starts_with("LIST.NEIGHBOR*") && name != "LIST.NEIGHBOR*IDS" {
        if let Some(v) = second {
            if v > ENVELOPE_TOPOLOGY {
                return false;
            }
        }
    }
    if alloc::stats().live > ENVELOPE_HEAP {
        return false;
    }
    true
}

/// Wrap every registered instruction (public API only: `add` returns the old entry).
pub fn wrap_all(is: &mut InstructionSet, names: &[String]) {
    for name in names {
        let old = is.add(name.clone(), Instruction::new(|_s: &mut PushState, _c: &InstructionCache| {}));
        if let Some(mut old) = old {
            let nm = name.clone();
            is.add(
                name.clone(),
                Instruction::new(move |s: &mut PushState, c: &InstructionCache| {
                    if !envelope_ok(&nm, s) {
                        ENV_EXIT.with(|e| e.set(true));
                        s.exec_stack.flush();
                        return;
                    }
                    LAST_INSTR.with(|l| {
                        let mut l = l.borrow_mut();
                        l.clear();
                        l.push_str(&nm);
                    });
                    EXEC_COUNTS.with(|m| *m.borrow_mut().entry(nm.clone()).or_insert(0) += 1);
                    (old.execute)(s, c);
                }),
            );
        }
    }
}

fn operand_class(s: &Snap) -> String {
    let ci = |v: Option<&i32>| match v {
        None => "-",
        Some(&i32::MIN) => "m",
        Some(&i32::MAX) => "M",
        Some(0) => "0",
        Some(x) if *x < 0 => "n",
        _ => "p",
    };
    let cf = |v: Option<&u32>| match v {
        None => "-",
        Some(b) => {
            let f = fl(*b);
            if f.is_nan() {
                "N"
            } else if f.is_infinite() {
                "I"
            } else if f == 0.0 {
                "0"
            } else if f.abs() > 1e20 {
                "H"
            } else {
                "f"
            }
        }
    };
    let cl = |n: Option<usize>| match n {
        None => "-".to_string(),
        Some(k) => k.min(3).to_string(),
    };
    format!(
        "{}{}|{}{}|b{}|c{}e{}x{}|{}{}{}|g{}",
        ci(s.i.get(0)),
        ci(s.i.get(1)),
        cf(s.f.get(0)),
        cf(s.f.get(1)),
        s.b.len().min(2),
        s.c.len().min(2),
        s.e.len().min(2),
        s.x.len().min(1),
        cl(s.bv.get(0).map(|v| v.len())),
        cl(s.iv.get(0).map(|v| v.len())),
        cl(s.fv.get(0).map(|v| v.len())),
        s.g.len().min(1)
    )
}

fn sweep(ctx: &mut Ctx) {
    let (mut is, names) = new_iset();
    let cache = sorted_cache(&is);
    let per_name = ctx.n(if ctx.profile == "debug" { 1000 } else { 6000 }, if ctx.profile == "debug" { 6000 } else { 40000 });
    let mut case: u64 = 0;
    for name in names.iter() {
        for k in 0..per_name {
            case += 1;
            if !ctx.mine(case) {
                continue;
            }
            let mut r = Rng::derive(ctx.seed, &[1, case]);
            let vals = match k % 4 {
                0 => Vals::Boundary,
                1 => Vals::Small,
                _ => Vals::Mixed,
            };
            let mut s = gen::snap(&mut r, &StateOpts { vals, max_depth: 4, graphs: true, io: true, bindings: true, flags: true, random_cfg: k % 3 == 0 }, &names);
            // missing-argument patterns: now and then empty one random stack
            if k % 5 == 4 {
                match r.below(8) {
                    0 => s.i.clear(),
                    1 => s.f.clear(),
                    2 => s.c.clear(),
                    3 => s.e.clear(),
                    4 => s.bv.clear(),
                    5 => s.iv.clear(),
                    6 => s.fv.clear(),
                    _ => s.b.clear(),
                }
            }
            let mut st = build_state(&s);
            // the envelope: size-like operands above the bound are replaced by an in-envelope value
            if !envelope_ok(name, &st) {
                ctx.rec.count("envelope_clamped", 1);
                let v = r.range(0, 40) as i32;
                if name.starts_with("LIST.NEIGHBOR*") && name != "LIST.NEIGHBOR*IDS" {
                    if let Some(x) = st.int_stack.get_mut(1) {
                        *x = v;
                    }
                } else if let Some(x) = st.int_stack.get_mut(0) {
                    *x = v;
                }
            }
            // operand affinity: every fifth LIST.NEIGHBOR* state is a WELL-FORMED call (valid index, 1-3
            // dimensions, small radius) whose size runs up to the envelope - the interesting arithmetic
            // (edge lengths, squared coordinate differences) only happens for valid operands
            if name.starts_with("LIST.NEIGHBOR*") && k % 5 == 2 {
                let size = *r.pick(&[1i32, 27, 64, 1000, 4096, 46340, 46341, 46342, 50000, 65536, 70000]);
                let dims = *r.pick(&[1i32, 1, 2, 3]);
                let index = match r.below(3) {
                    0 => 0,
                    1 => size - 1,
                    _ => r.below(size as usize) as i32,
                };
                st.int_stack.push(dims);
                st.int_stack.push(index);
                st.int_stack.push(size);
                if name != "LIST.NEIGHBOR*IDS" {
                    st.int_stack.push(0);
                }
                st.float_stack.push(*r.pick(&[0.0f32, 1.0, 1.5]));
            }
            // operand affinity: graph instructions get real node ids of the top graph now and then
            if name.starts_with("GRAPH.") && k % 2 == 1 && st.graph_stack.size() > 0 {
                let ids: Vec<i32> = st.graph_stack.get(0).unwrap().nodes.keys().map(|x| *x as i32).collect();
                if !ids.is_empty() {
                    for pos in 0..st.int_stack.size().min(3) {
                        if r.chance(2, 3) {
                            let v = *r.pick(&ids);
                            if let Some(x) = st.int_stack.get_mut(pos) {
                                *x = v;
                            }
                        }
                    }
                    if r.bool() {
                        if let Some(v) = st.int_vector_stack.get_mut(0) {
                            v.values = (0..r.below(4)).map(|_| *r.pick(&ids)).collect();
                        }
                    }
                }
            }
            let pre = Snap::of(&st);
            ctx.rec.case_marker(case, &format!("sweep {} :: {}", name, pre.summary()));
            let obs = step_named(&mut st, &mut is, &cache, name);
            ctx.rec.count("steps", 1);
            ctx.rec.count("sweep_cases", 1);
            ctx.rec.set_add("instructions", name);
            ctx.rec.cover(&format!("{}|{}", name, operand_class(&pre)));
            ctx.rec.max("max_step_cpu_us", (obs.cpu_s * 1e6) as u64);
            if let Some(p) = &obs.panic {
                ctx.rec.violation("C01", &format!("{}|panic|{}", name, panic_sig(p)), &format!("{} panicked: {} ; pre-state: {}", name, p, pre.summary()), "");
            }
            if k == 0 && case % 40 == 1 {
                ctx.rec.sample("sweep", &format!("{} on {}", name, pre.summary()));
            }
        }
    }
}

enum Src {
    Grammar,
    PushrGenerator,
    /// every instruction is preceded by literals for its documented operands, so programs stay
    /// "alive" and build up vectors, graphs, bindings and code over many steps
    Typed,
}

fn typed_program(r: &mut Rng, names: &[String], vals: Vals) -> SItem {
    use crate::frame::frame;
    let i = |n: &str| SItem::Instr(n.to_string());
    let n_instr = 5 + r.below(45);
    let io = gen::ItemOpts::all(vals);
    let mut items: Vec<SItem> = vec![];
    if r.bool() {
        items.push(i("GRAPH.ADD"));
        for _ in 0..r.below(4) {
            items.push(SItem::Int(r.below(4) as i32));
            items.push(i("GRAPH.NODE*ADD"));
        }
    }
    for _ in 0..n_instr {
        let name = r.pick(names).clone();
        let mut after: Vec<SItem> = vec![];
        if let Some(fr) = frame(&name) {
            for (st, n) in fr.needs.iter() {
                for _ in 0..*n {
                    match st {
                        St::Bool => items.push(SItem::Bool(r.bool())),
                        St::Int => items.push(SItem::Int(gen::int(r, vals))),
                        St::Float => items.push(SItem::Float(fb(gen::float(r, vals)))),
                        St::Name => {
                            items.push(i("NAME.QUOTE"));
                            items.push(SItem::Name(gen::name(r)));
                        }
                        St::Code => {
                            items.push(i("CODE.QUOTE"));
                            items.push(gen::item(r, 2, &io, names));
                        }
                        St::Exec => after.push(gen::item(r, 2, &io, names)),
                        St::BV => items.push(SItem::BV(gen::bvec(r, 5))),
                        St::IV => items.push(SItem::IV(gen::ivec(r, 5, vals))),
                        St::FV => items.push(SItem::FV(gen::fvec(r, 5, vals))),
                        St::Index => {
                            items.push(SItem::Int(r.below(5) as i32));
                            items.push(i("INDEX.DEFINE"));
                        }
                        St::Graph => items.push(i("GRAPH.ADD")),
                        _ => {}
                    }
                }
            }
        }
        items.push(SItem::Instr(name));
        items.extend(after);
    }
    SItem::List(items)
}

fn programs(ctx: &mut Ctx, src: Src) {
    let (mut is, names) = new_iset();
    wrap_all(&mut is, &names);
    let cache = sorted_cache(&is);
    let label = match src {
        Src::Grammar => 2u64,
        Src::PushrGenerator => 3u64,
        Src::Typed => 4u64,
    };
    let nprog = match src {
        Src::Grammar => ctx.n(if ctx.profile == "debug" { 12000 } else { 80000 }, if ctx.profile == "debug" { 100000 } else { 1000000 }),
        Src::PushrGenerator => ctx.n(if ctx.profile == "debug" { 8000 } else { 30000 }, if ctx.profile == "debug" { 80000 } else { 400000 }),
        Src::Typed => ctx.n(if ctx.profile == "debug" { 10000 } else { 60000 }, if ctx.profile == "debug" { 100000 } else { 1000000 }),
    };
    for k in 0..nprog as u64 {
        let case = label * 10_000_000 + k;
        if !ctx.mine(case) {
            continue;
        }
        let mut r = Rng::derive(ctx.seed, &[1, case]);
        let vals = if k % 3 == 0 { Vals::Boundary } else { Vals::Mixed };
        let mut s = gen::snap(&mut r, &StateOpts { vals, max_depth: 3, graphs: true, io: true, bindings: true, flags: k % 7 == 0, random_cfg: true }, &names);
        s.e.clear();
        if k % 11 == 0 {
            // self-referential and mutually recursive bindings
            s.nb.insert("a".into(), SItem::Name("a".into()));
            s.nb.insert("b".into(), SItem::List(vec![SItem::Name("c".into()), SItem::Name("b".into())]));
        }
        s.cfg.eval_push_limit = *r.pick(&[-1, i32::MIN, 0, 1, 10, 200, 1000, 3000]);
        s.cfg.eval_time_limit = 20_000;
        s.cfg.growth_cap = *r.pick(&[0, 1, 5, 50, 500, 100000, usize::MAX, usize::MAX - 1]);
        let mut st = build_state(&s);
        let prog_text;
        match src {
            Src::Grammar => {
                let pts = 1 + r.below(if k % 10 == 0 { 200 } else { 40 });
                let dep = 1 + r.below(6);
                let prog = gen::program(&mut r, pts, dep, vals, &names);
                prog_text = gen::render(&prog);
                st.exec_stack.push(prog.to_item());
            }
            Src::Typed => {
                let prog = typed_program(&mut r, &names, vals);
                prog_text = gen::render(&prog);
                st.exec_stack.push(prog.to_item());
            }
            Src::PushrGenerator => {
                let n = 1 + r.below(if k % 10 == 0 { 300 } else { 60 });
                let gcache = InstructionCache::new(names.clone());
                let item = match guarded(|| CodeGenerator::random_code_with_size(&st, &gcache, n)) {
                    Ok(i) => i,
                    Err(_) => {
                        ctx.rec.count("generator_panicked(C12)", 1);
                        continue;
                    }
                };
                prog_text = SItem::of(&item).to_string();
                st.exec_stack.push(item);
            }
        }
        let init = Snap::of(&st);
        let run_mode = k % 2 == 0;
        ctx.rec.case_marker(case, &format!("{} program {} :: init {}", if run_mode { "run" } else { "step" }, prog_text, init.summary()));
        ENV_EXIT.with(|e| e.set(false));
        let limit = init.cfg.eval_push_limit.max(50) as usize;
        let t0 = alloc::thread_cpu_s();
        let res = guarded(|| {
            if run_mode {
                let _ = PushInterpreter::run(&mut st, &mut is);
                0usize
            } else {
                let mut n = 0usize;
                while n < limit {
                    if PushInterpreter::step(&mut st, &mut is, &cache) {
                        break;
                    }
                    n += 1;
                }
                n
            }
        });
        let cpu = alloc::thread_cpu_s() - t0;
        ctx.rec.count("programs", 1);
        ctx.rec.count(if run_mode { "programs_run" } else { "programs_stepped" }, 1);
        ctx.rec.max("max_program_cpu_ms", (cpu * 1e3) as u64);
        if ENV_EXIT.with(|e| e.get()) {
            ctx.rec.count("envelope_exits", 1);
        }
        if let Err(p) = res {
            let last = LAST_INSTR.with(|l| l.borrow().clone());
            ctx.rec.violation(
                "C01",
                &format!("{}|panic|{}", last, panic_sig(&p)),
                &format!("program panicked in/after {}: {} ; mode={} ; program: {} ; initial state: {}", last, p, if run_mode { "run" } else { "step" }, prog_text, init.summary()),
                "",
            );
        }
        // drop the (possibly large) state inside a guard as well: Drop must not crash either
        let _ = guarded(move || drop(st));
        if k % 400 == 0 {
            ctx.rec.sample(
                match src {
                    Src::Grammar => "grammar-program",
                    Src::PushrGenerator => "pushr-generator-program",
                    Src::Typed => "typed-program",
                },
                &format!("{} :: init {}", prog_text, init.summary()),
            );
        }
    }
    // coverage of instructions inside real program runs
    let counts = EXEC_COUNTS.with(|m| m.borrow().clone());
    let mut steps = 0;
    for (n, c) in counts.iter() {
        ctx.rec.set_add("instructions_in_programs", n);
        steps += *c;
    }
    ctx.rec.count("steps", steps);
    ctx.rec.count("program_instruction_executions", steps);
    EXEC_COUNTS.with(|m| m.borrow_mut().clear());
}

/// small workload for Miri: undefined behaviour in the dependency code that instructions actually
/// reach (rand, rand_distr, names, ...): every instruction once on a small rich state + a few programs
fn run_miri(ctx: &mut Ctx) {
    let (mut is, names) = new_iset();
    let cache = sorted_cache(&is);
    for (k, name) in names.iter().enumerate() {
        let mut r = Rng::derive(ctx.seed, &[1, 5, k as u64]);
        let s = gen::snap(&mut r, &StateOpts { vals: Vals::Small, max_depth: 3, graphs: true, io: true, bindings: true, flags: false, random_cfg: false }, &names);
        let mut st = build_state(&s);
        st.exec_stack.push(pushr::push::item::Item::instruction(name.clone()));
        let res = guarded(|| PushInterpreter::step(&mut st, &mut is, &cache));
        ctx.rec.count("steps", 1);
        ctx.rec.set_add("instructions", name);
        ctx.rec.cover(&format!("miri|{}", name));
        if let Err(p) = res {
            ctx.rec.violation("C01", &format!("{}|panic|{}", name, panic_sig(&p)), &p, "");
        }
    }
    for k in 0..6u64 {
        let mut r = Rng::derive(ctx.seed, &[1, 6, k]);
        let prog = typed_program(&mut r, &names, Vals::Small);
        let mut st = PushState::new();
        st.configuration.eval_push_limit = 60;
        st.exec_stack.push(prog.to_item());
        if let Err(p) = guarded(|| PushInterpreter::run(&mut st, &mut is)) {
            ctx.rec.violation("C01", &format!("program|panic|{}", panic_sig(&p)), &p, "");
        }
        ctx.rec.count("programs", 1);
    }
    ctx.rec.sample("miri", "every registered instruction once on a small rich state + 6 typed programs under the interpreter");
}

/// Long runs: a handful of never-ending but constant-size programs under step budgets of 70 000 to
/// 300 000 (counters narrower than the budget wrap only there), through run(), in both profiles.
fn long_runs(ctx: &mut Ctx) {
    if ctx.is_fuzz() {
        return;
    }
    use pushr::push::interpreter::PushInterpreter;
    let (mut is, _names) = new_iset();
    let i = |n: &str| SItem::Instr(n.to_string());
    let progs: Vec<SItem> = vec![
        SItem::List(vec![i("EXEC.Y"), SItem::List(vec![i("NOOP")])]),
        SItem::List(vec![SItem::Int(0), SItem::Int(100_000_000), i("INDEX.DEFINE"), i("EXEC.LOOP"), SItem::List(vec![SItem::Int(1), i("INTEGER.+")])]),
        SItem::List(vec![SItem::Int(100_000_000), i("INDEX.DEFINE"), i("EXEC.LOOP"), SItem::List(vec![i("INDEX.CURRENT"), i("INTEGER.POP"), SItem::Float(fb(0.5)), i("FLOAT.POP")])]),
    ];
    let mut case = 9_000_000u64;
    for (pi, prog) in progs.iter().enumerate() {
        for limit in [70_000i32, 131_073, 300_000] {
            case += 1;
            if !ctx.mine(case) {
                continue;
            }
            let mut s = Snap::empty();
            s.e = vec![prog.clone()];
            s.cfg.eval_push_limit = limit;
            s.cfg.eval_time_limit = 600_000;
            s.cfg.growth_cap = 1000;
            let mut st = build_state(&s);
            ctx.rec.case_marker(case, &format!("long run {} under a budget of {} steps", prog, limit));
            let r = guarded(|| PushInterpreter::run(&mut st, &mut is));
            ctx.rec.count("programs", 1);
            ctx.rec.count("long_runs", 1);
            ctx.rec.count("steps", limit as u64);
            if let Err(p) = r {
                ctx.rec.violation("C01", &format!("run|panic|{}", panic_sig(&p)), &format!("{} ; program {} with eval_push_limit {}", p, prog, limit), "");
            }
            ctx.rec.cover(&format!("long|{}|{}", pi, limit));
        }
    }
}

pub fn run(ctx: &mut Ctx) {
    if ctx.mode == "miri" {
        run_miri(ctx);
        ctx.rec.checkpoint();
        return;
    }
    match ctx.mode.as_str() {
        "sweep" => sweep(ctx),
        "grammar" => programs(ctx, Src::Grammar),
        "pushrgen" => programs(ctx, Src::PushrGenerator),
        "typed" => programs(ctx, Src::Typed),
        _ => {
            sweep(ctx);
            ctx.rec.checkpoint();
            programs(ctx, Src::Grammar);
            ctx.rec.checkpoint();
            programs(ctx, Src::PushrGenerator);
            ctx.rec.checkpoint();
            programs(ctx, Src::Typed);
            ctx.rec.checkpoint();
            long_runs(ctx);
        }
    }
    ctx.rec.checkpoint();
}
