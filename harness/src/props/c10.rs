//! C10 — missing arguments never fabricate results; instructions touch only their stacks.
//! F monitor: for every registered name, every pattern of too-short operand stacks
//! (exhaustive over depths 0..=need), guard-failing operand values, random bystanders.

use crate::dmon::{judged_step, Judge};
use crate::frame::{frame, ALLN};
use crate::gen::{self, StateOpts, Vals};
use crate::mon::{new_iset, sorted_cache};
use crate::rng::Rng;
use crate::snap::*;
use crate::Ctx;

fn truncate(s: &mut Snap, st: St, d: usize, r: &mut Rng, names: &[String]) {
    // make stack `st` exactly `d` deep (pad with small values when shorter)
    let io = gen::ItemOpts::all(Vals::Small);
    match st {
        St::Bool => {
            s.b.truncate(d);
            while s.b.len() < d {
                s.b.push(r.bool())
            }
        }
        St::Int => {
            s.i.truncate(d);
            while s.i.len() < d {
                s.i.push(gen::int(r, Vals::Small))
            }
        }
        St::Float => {
            s.f.truncate(d);
            while s.f.len() < d {
                s.f.push(fb(gen::grid_float(r)))
            }
        }
        St::Name => {
            s.n.truncate(d);
            while s.n.len() < d {
                s.n.push(gen::name(r))
            }
        }
        St::Code => {
            s.c.truncate(d);
            while s.c.len() < d {
                s.c.push(gen::item(r, 2, &io, names))
            }
        }
        St::Exec => {
            s.e.truncate(d);
            while s.e.len() < d {
                s.e.push(gen::item(r, 2, &io, names))
            }
        }
        St::Index => {
            s.x.truncate(d);
            while s.x.len() < d {
                s.x.push((r.below(3), r.below(4)))
            }
        }
        St::BV => {
            s.bv.truncate(d);
            while s.bv.len() < d {
                s.bv.push(gen::bvec(r, 4))
            }
        }
        St::IV => {
            s.iv.truncate(d);
            while s.iv.len() < d {
                s.iv.push(gen::ivec(r, 4, Vals::Small))
            }
        }
        St::FV => {
            s.fv.truncate(d);
            while s.fv.len() < d {
                s.fv.push(gen::fvec(r, 4, Vals::Small))
            }
        }
        St::Input => {
            s.inp.truncate(d);
            while s.inp.len() < d {
                s.inp.push((gen::ivec(r, 2, Vals::Small), gen::bvec(r, 3)))
            }
        }
        St::Graph => {
            s.g.truncate(d);
            while s.g.len() < d {
                s.g.push(gen::sgraph_spec(r, Vals::Small))
            }
        }
        _ => {}
    }
}

pub fn run(ctx: &mut Ctx) {
    let (mut is, names) = new_iset();
    let cache = sorted_cache(&is);
    let judge = Judge { frame: true, reference: false };
    let variations = ctx.n(120, 8000);
    let mut case: u64 = 0;
    let mut patterns: u64 = 0;
    for name in names.iter() {
        let fr = match frame(name) {
            Some(f) => f,
            None => {
                ctx.rec.violation("C10", &format!("{}|no-frame-row", name), "registered instruction without a frame row", "");
                continue;
            }
        };
        ctx.rec.set_add("instructions", name);
        // the stacks whose depth matters: those in needs, with their need (at least 1 so that an
        // instruction without needs is still run on empty and non-empty operand stacks)
        let mut dims: Vec<(St, usize)> = fr.needs.clone();
        for (st, n) in fr.pops.iter() {
            if !dims.iter().any(|(s, _)| s == st) {
                dims.push((*st, if *n == ALLN { 2 } else { *n }));
            }
        }
        // enumerate all depth vectors in prod(0..=need)
        let total: usize = dims.iter().map(|(_, n)| n + 1).product::<usize>().max(1);
        for pat in 0..total {
            patterns += 1;
            for var in 0..variations {
                case += 1;
                if !ctx.mine(case) {
                    continue;
                }
                let mut r = Rng::derive(ctx.seed, &[10, case]);
                // a third of the variations use boundary / arbitrary operand VALUES (size-like operands
                // are pulled back into the envelope below)
                let vals = if var % 3 == 2 { Vals::Mixed } else { Vals::Small };
                let mut s = gen::snap(&mut r, &StateOpts { vals, max_depth: 3, graphs: true, io: true, bindings: true, flags: var % 3 == 0, random_cfg: var % 6 == 5 }, &names);
                // size-like operands stay tiny (Vals::Small gives |v| <= 12)
                let mut p = pat;
                let mut desc = String::new();
                for (st, n) in dims.iter() {
                    let d = p % (n + 1);
                    p /= n + 1;
                    // the "satisfied" level gets a random surplus so deeper stacks are covered too
                    let depth = if d == *n { d + r.below(3) } else { d };
                    truncate(&mut s, *st, depth, &mut r, &names);
                    desc.push_str(&format!("{:?}={} ", st, depth));
                }
                // capacity boundaries of the fixed-size buffers: a full GRAPH stack (100), a full INPUT
                // queue (10) and a full OUTPUT queue (3), with positions / depths at and beyond them
                if var % 10 == 9 && (name.starts_with("GRAPH.") || name.starts_with("INPUT.") || name.starts_with("OUTPUT.")) {
                    let g0 = gen::sgraph_spec(&mut r, Vals::Small);
                    s.g = (0..100).map(|_| g0.clone()).collect();
                    s.inp = (0..10).map(|j| (vec![j], vec![j % 2 == 0])).collect();
                    s.out = (0..3).map(|j| (vec![j], vec![true])).collect();
                    if !s.i.is_empty() {
                        s.i[0] = *r.pick(&[99, 100, 101, 150, i32::MAX]);
                    }
                }
                // guard-failing values, now and then
                if var % 4 == 1 && !s.i.is_empty() {
                    s.i[0] = *r.pick(&[0, -1, -5, 1]);
                }
                if var % 4 == 2 && !s.f.is_empty() {
                    s.f[0] = fb(*r.pick(&[0.0f32, -0.0, f32::NAN, -1.0, 2.0]));
                }
                if name == "FLOATVECTOR.SINE" && !s.i.is_empty() && s.i[0] < 0 && var % 2 == 0 {
                    s.i[0] = s.i[0].checked_neg().unwrap_or(i32::MAX);
                }
                let mut st = build_state(&s);
                if !crate::props::c01::envelope_ok(name, &st) {
                    let v = r.range(0, 12) as i32;
                    if name.starts_with("LIST.NEIGHBOR*") && name != "LIST.NEIGHBOR*IDS" {
                        if let Some(x) = st.int_stack.get_mut(1) {
                            *x = v;
                        }
                    } else if let Some(x) = st.int_stack.get_mut(0) {
                        *x = v;
                    }
                }
                ctx.rec.case_marker(case, name);
                let ev = judged_step("C10", name, &mut st, &mut is, &cache, &mut ctx.rec, judge, &format!("pattern: {}", desc));
                ctx.rec.count("steps", 1);
                match ev.fired {
                    Some(true) => ctx.rec.count("fired", 1),
                    Some(false) => ctx.rec.count("unfired", 1),
                    None => {}
                }
                ctx.rec.cover(&format!("{}|{}|{:?}", name, pat, ev.fired));
                if var < 16 && pat <= 1 {
                    if let Some(p) = &ev.post {
                        ctx.rec.sample("missing-args", &format!("{} [{}]: {}  =>  {}", name, desc.trim(), ev.pre.summary(), p.summary()));
                    }
                }
            }
        }
    }
    ctx.rec.note("patterns", &patterns.to_string());
    ctx.rec.checkpoint();
    // guards that fail only AFTER operands were taken: LIST.SET / LIST.ADD whose id vector names the CODE stack
    // itself (several times), so that the addressed position no longer exists once the members are loaded -
    // the instruction must then push and replace nothing (judged by the frame table and the reference)
    let nlate = if ctx.is_fuzz() { 40 } else { ctx.n(4000, 60000) };
    for k in 0..nlate as u64 {
        case += 1;
        if !ctx.mine(case) {
            continue;
        }
        let mut r = Rng::derive(ctx.seed, &[10, 55, k]);
        let mut s = gen::snap(&mut r, &StateOpts { vals: Vals::Small, max_depth: 3, graphs: false, io: false, bindings: k % 3 == 0, flags: k % 5 == 0, random_cfg: false }, &names);
        let io = gen::ItemOpts::all(Vals::Small);
        let depth = r.below(6) as usize;
        s.c = (0..depth).map(|_| gen::item(&mut r, 2, &io, &names)).collect();
        // id vector: 1..6 ids, the CODE id (3) with high probability, sometimes more often than CODE is deep
        let nids = 1 + r.below(6) as usize;
        let ids: Vec<i32> = (0..nids).map(|_| if r.below(3) != 0 { 3 } else { *r.pick(&[1, 2, 4, 5, 6, 7, 8, 9, 10, 11, 12, 0, 13, -3]) }).collect();
        s.iv.insert(0, ids.clone());
        let name = if k % 4 == 3 { "LIST.ADD" } else { "LIST.SET" };
        if name == "LIST.SET" {
            // positions: mostly the bottom part of the stack (the part that disappears), also beyond / negative
            let pos = match r.below(5) {
                0 => -1,
                1 => depth as i32 + r.below(3) as i32,
                2 => r.below(depth.max(1)) as i32,
                _ => depth as i32 - 1 - r.below(depth.max(1).min(3)) as i32,
            };
            s.i.insert(0, pos);
        }
        let mut st = build_state(&s);
        ctx.rec.case_marker(case, name);
        let ev = judged_step("C10", name, &mut st, &mut is, &cache, &mut ctx.rec, Judge { frame: true, reference: true }, &format!("late guard: ids {:?}, CODE depth {}", ids, depth));
        ctx.rec.count("steps", 1);
        ctx.rec.count("late_guard_steps", 1);
        let n3 = ids.iter().filter(|x| **x == 3).count();
        ctx.rec.cover(&format!("{}|late|d{}|n3={}|{:?}", name, depth, n3.min(4), ev.fired));
    }
    ctx.rec.checkpoint();
    // every instruction inside the interpreter's own control structures (continuation items on EXEC,
    // loop indices on INDEX): the frame table holds there too
    if !ctx.is_fuzz() || ctx.fuzz.map(|k| k % 4 == 0).unwrap_or(false) {
        crate::props::c06::context_sweep(ctx, "C10", &|_n: &str| Judge { frame: true, reference: false });
        ctx.rec.checkpoint();
    }
    // the REAL EXEC.CMD (everywhere else a stub stands in for it), pointed at a harmless target:
    // it must consume the count and the names and touch nothing else (it sleeps 1 s per call)
    case += 1;
    if ctx.mine(case) && !ctx.is_fuzz() {
        let target = ["/usr/bin/true", "/bin/true"].iter().find(|p| std::path::Path::new(p).exists());
        match target {
            None => ctx.rec.count("exec_cmd_real_skipped_no_harmless_target", 1),
            Some(t) => {
                let mut real = pushr::push::instructions::InstructionSet::new();
                real.load();
                let rcache = sorted_cache(&real);
                for nargs in [0usize, 2] {
                    let mut r = Rng::derive(ctx.seed, &[10, 77, nargs as u64]);
                    let mut s = gen::snap(&mut r, &StateOpts { vals: Vals::Small, max_depth: 3, graphs: true, io: true, bindings: true, flags: false, random_cfg: false }, &names);
                    s.n.insert(0, t.to_string());
                    for a in 0..nargs {
                        s.n.insert(0, format!("arg{}", a));
                    }
                    s.i.insert(0, nargs as i32);
                    let mut st = build_state(&s);
                    ctx.rec.case_marker(case, "EXEC.CMD (real)");
                    let ev = judged_step("C10", "EXEC.CMD", &mut st, &mut real, &rcache, &mut ctx.rec, Judge { frame: true, reference: true }, &format!("real EXEC.CMD on {} with {} arguments", t, nargs));
                    ctx.rec.count("steps", 1);
                    ctx.rec.count("exec_cmd_real_runs", 1);
                    ctx.rec.cover(&format!("EXEC.CMD|real|{}|{:?}", nargs, ev.fired));
                }
            }
        }
    }
    ctx.rec.checkpoint();
}
