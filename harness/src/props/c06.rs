//! C06 — control flow runs code in the documented order, the documented number of times.
//! (1) single-step combinators on random EXEC/CODE contents (D monitor);
//! (2) loop traces: harness-registered VERIF.PROBE logs what a loop body can see; an offline
//!     checker compares the trace with the documented iteration sequence (nested loops included);
//! (3) random control programs stepped with every step judged against the unfolding rules.

use crate::dmon::{judged_exec_step, judged_step, Judge};
use crate::gen::{self, StateOpts, Vals};
use crate::mon::{new_iset, sorted_cache};
use crate::rng::Rng;
use crate::snap::*;
use crate::Ctx;
use pushr::push::instructions::{Instruction, InstructionCache};
use pushr::push::state::PushState;
use std::cell::RefCell;

#[derive(Clone, Debug, PartialEq)]
pub struct ProbeEvent {
    pub id: i32,
    /// INDEX stack, top first
    pub index: Vec<(usize, usize)>,
    pub top_int: Option<i32>,
}

thread_local! {
    pub static TRACE: RefCell<Vec<ProbeEvent>> = RefCell::new(vec![]);
}

/// VERIF.PROBE: pops its id from the INTEGER stack and logs what the body can observe.
pub fn probe(s: &mut PushState, _c: &InstructionCache) {
    if let Some(id) = s.int_stack.pop() {
        let mut index = vec![];
        for k in 0..s.index_stack.size() {
            let ix = s.index_stack.get(k).unwrap();
            index.push((ix.current, ix.destination));
        }
        let top_int = s.int_stack.get(0).copied();
        TRACE.with(|t| t.borrow_mut().push(ProbeEvent { id, index, top_int }));
    }
}

#[derive(Clone, Debug)]
enum Node {
    Probe(i32),
    Neutral(usize),
    Cond(bool, Vec<Node>, Vec<Node>),
    ExecLoop(i32, Vec<Node>),
    CodeLoop(i32, Vec<Node>),
    VecLoop(Vec<i32>, i32, Vec<Node>), // elements, id of the element probe, rest of the body
}

fn neutral(k: usize) -> Vec<SItem> {
    let i = |n: &str| SItem::Instr(n.to_string());
    match k % 6 {
        0 => vec![i("NOOP")],
        1 => vec![SItem::Int(7), i("INTEGER.POP")],
        2 => vec![SItem::Bool(true), i("BOOLEAN.NOT"), i("BOOLEAN.POP")],
        3 => vec![i("INDEX.CURRENT"), i("INTEGER.POP")],
        4 => vec![SItem::Float(fb(1.5)), i("FLOAT.DUP"), i("FLOAT.+"), i("FLOAT.POP")],
        _ => vec![SItem::List(vec![SItem::Int(1), SItem::Int(2), i("INTEGER.+"), i("INTEGER.POP")])],
    }
}

fn emit(nodes: &[Node], out: &mut Vec<SItem>) {
    let i = |n: &str| SItem::Instr(n.to_string());
    for n in nodes {
        match n {
            Node::Probe(id) => {
                out.push(SItem::Int(*id));
                out.push(i("VERIF.PROBE"));
            }
            Node::Neutral(k) => out.extend(neutral(*k)),
            Node::Cond(c, a, b) => {
                let mut la = vec![];
                emit(a, &mut la);
                let mut lb = vec![];
                emit(b, &mut lb);
                out.push(SItem::Bool(*c));
                out.push(i("EXEC.IF"));
                out.push(SItem::List(la));
                out.push(SItem::List(lb));
            }
            Node::ExecLoop(n, body) => {
                let mut l = vec![];
                emit(body, &mut l);
                out.push(SItem::Int(*n));
                out.push(i("INDEX.DEFINE"));
                out.push(i("EXEC.LOOP"));
                out.push(SItem::List(l));
            }
            Node::CodeLoop(n, body) => {
                let mut l = vec![];
                emit(body, &mut l);
                out.push(i("CODE.QUOTE"));
                out.push(SItem::List(l));
                out.push(SItem::Int(*n));
                out.push(i("INDEX.DEFINE"));
                out.push(i("CODE.LOOP"));
            }
            Node::VecLoop(v, id, body) => {
                let mut l = vec![SItem::Int(*id), i("VERIF.PROBE"), i("INTEGER.POP")];
                emit(body, &mut l);
                out.push(SItem::IV(v.clone()));
                out.push(i("INTVECTOR.LOOP"));
                out.push(SItem::List(l));
            }
        }
    }
}

/// the documented iteration sequence
fn expect(nodes: &[Node], index: &mut Vec<(usize, usize)>, out: &mut Vec<ProbeEvent>) {
    for n in nodes {
        match n {
            Node::Probe(id) => out.push(ProbeEvent { id: *id, index: index.clone(), top_int: None }),
            Node::Neutral(_) => {}
            Node::Cond(c, a, b) => expect(if *c { a } else { b }, index, out),
            Node::ExecLoop(n, body) | Node::CodeLoop(n, body) => {
                let dest = (*n).max(0) as usize;
                for k in 0..dest {
                    index.insert(0, (k, dest));
                    expect(body, index, out);
                    index.remove(0);
                }
            }
            Node::VecLoop(v, id, body) => {
                for el in v {
                    out.push(ProbeEvent { id: *id, index: index.clone(), top_int: Some(*el) });
                    expect(body, index, out);
                }
            }
        }
    }
}

fn gen_nodes(r: &mut Rng, depth: usize, next_id: &mut i32, loops_left: &mut usize, nmax: i64, has_code: &mut bool, shape: &mut String) -> Vec<Node> {
    let len = 1 + r.below(3);
    let mut v = vec![];
    for _ in 0..len {
        let k = r.below(10);
        if k < 3 {
            *next_id += 1;
            v.push(Node::Probe(*next_id));
        } else if k < 5 {
            v.push(Node::Neutral(r.below(6)));
        } else if k == 5 && depth > 0 {
            let a = gen_nodes(r, depth - 1, next_id, loops_left, nmax, has_code, shape);
            let b = gen_nodes(r, depth - 1, next_id, loops_left, nmax, has_code, shape);
            v.push(Node::Cond(r.bool(), a, b));
        } else if depth > 0 && *loops_left > 0 {
            *loops_left -= 1;
            let n = if r.chance(1, 8) { -3 } else { r.range(0, nmax) as i32 };
            match r.below(5) {
                0 | 1 => {
                    shape.push('E');
                    let mut body = gen_nodes(r, depth - 1, next_id, loops_left, nmax, has_code, shape);
                    *next_id += 1;
                    body.insert(0, Node::Probe(*next_id));
                    shape.push(')');
                    v.push(Node::ExecLoop(n, body));
                }
                2 if false => {
                    // (CODE.LOOP is exercised in programs of its own, see loop_traces: its known
                    // re-arm defect leaves indices behind and would derail every enclosing loop)
                    *has_code = true;
                }
                _ => {
                    shape.push('V');
                    let body = gen_nodes(r, depth - 1, next_id, loops_left, nmax, has_code, shape);
                    *next_id += 1;
                    let l = r.below(nmax as usize + 1);
                    let els: Vec<i32> = (0..l).map(|_| r.range(-50, 50) as i32).collect();
                    shape.push(')');
                    v.push(Node::VecLoop(els, *next_id, body));
                }
            }
        } else {
            *next_id += 1;
            v.push(Node::Probe(*next_id));
        }
    }
    v
}

fn loop_traces(ctx: &mut Ctx) {
    let (mut is, _names) = new_iset();
    is.add("VERIF.PROBE".to_string(), Instruction::new(probe));
    let cache = sorted_cache(&is);
    let judge = Judge { frame: true, reference: true };
    let nprog = ctx.n(8000, 80000);
    let nmax = ctx.n(6, 12) as i64;
    for k in 0..nprog as u64 {
        if !ctx.mine(k) {
            continue;
        }
        let mut r = Rng::derive(ctx.seed, &[6, 2, k]);
        let mut next_id = 100;
        let mut loops_left = 1 + r.below(4);
        let mut has_code = false;
        let mut shape = String::new();
        // first programs: the plain single-loop family for every n (so every count is covered)
        let nodes = if k >= 3 * (nmax as u64 + 2) && k < 3 * (nmax as u64 + 2) + 30 {
            // long single loops (20..100 iterations), one kind each
            let j = k - 3 * (nmax as u64 + 2);
            let n = 20 + (j as i32 / 3) * 9;
            match j % 3 {
                0 => {
                    shape.push_str("E)");
                    // the body grows with j: up to ~130 top-level elements
                    let mut body = vec![Node::Probe(1)];
                    for q in 0..(j as usize * 5) {
                        body.push(Node::Neutral(q % 5));
                    }
                    body.push(Node::Probe(2));
                    vec![Node::ExecLoop(n.min(25), body)]
                }
                1 => {
                    shape.push_str("E)E)");
                    vec![Node::ExecLoop(n / 4, vec![Node::Probe(1), Node::ExecLoop(5, vec![Node::Probe(2)])])]
                }
                _ => {
                    shape.push_str("V)");
                    vec![Node::VecLoop((0..n).map(|x| 1000 + x).collect(), 1, vec![Node::Neutral(j as usize)])]
                }
            }
        } else if k < 3 * (nmax as u64 + 2) {
            let n = (k / 3) as i32 - 1; // -1 .. nmax
            match k % 3 {
                0 => {
                    shape.push_str("E)");
                    vec![Node::ExecLoop(n, vec![Node::Probe(1)])]
                }
                1 => {
                    has_code = true;
                    shape.push_str("C)");
                    vec![Node::CodeLoop(n, vec![Node::Probe(1)])]
                }
                _ => {
                    shape.push_str("V)");
                    vec![Node::VecLoop((0..n.max(0)).map(|x| 10 + x).collect(), 1, vec![])]
                }
            }
        } else if k % 7 == 0 {
            // a single CODE.LOOP around a loop-free body
            has_code = true;
            shape.push_str("C)");
            let mut none = 0usize;
            let mut body = gen_nodes(&mut r, 2, &mut next_id, &mut none, nmax, &mut false, &mut String::new());
            next_id += 1;
            body.insert(0, Node::Probe(next_id));
            vec![Node::CodeLoop(if r.chance(1, 8) { -3 } else { r.range(0, nmax) as i32 }, body)]
        } else {
            gen_nodes(&mut r, 3, &mut next_id, &mut loops_left, nmax, &mut has_code, &mut shape)
        };
        let mut items = vec![];
        emit(&nodes, &mut items);
        let prog = SItem::List(items);
        let mut want = vec![];
        expect(&nodes, &mut vec![], &mut want);
        if want.len() > 4000 {
            continue;
        }
        let mut st = PushState::new();
        st.exec_stack.push(prog.to_item());
        TRACE.with(|t| t.borrow_mut().clear());
        ctx.rec.case_marker(k, &format!("loop program {}", prog));
        let viol_before = ctx.rec.violations_recorded();
        let mut steps = 0usize;
        let mut crashed = false;
        loop {
            if st.exec_stack.size() == 0 {
                break;
            }
            if steps > 400_000 {
                ctx.rec.violation("C06", "loop-program|does-not-terminate", &format!("more than 400000 steps for {}", prog), "");
                crashed = true;
                break;
            }
            let ev = judged_exec_step("C06", &mut st, &mut is, &cache, &mut ctx.rec, judge, "loop trace program");
            steps += 1;
            if ev.post.is_none() {
                crashed = true;
                break;
            }
        }
        ctx.rec.count("steps", steps as u64);
        ctx.rec.count("loop_programs", 1);
        if crashed {
            continue;
        }
        let got = TRACE.with(|t| t.borrow().clone());
        ctx.rec.count("probe_events_checked", got.len() as u64);
        ctx.rec.count("loop_instances", want.iter().filter(|e| e.id > 0).count().min(1) as u64);
        let step_violations = ctx.rec.violations_recorded() - viol_before;
        let fin = Snap::of(&st);
        let clean_end = fin.x.is_empty() && fin.iv.is_empty() && fin.e.is_empty() && fin.c.is_empty() && fin.i.is_empty();
        if got != want || !clean_end {
            let first = got.iter().zip(want.iter()).position(|(a, b)| a != b).unwrap_or(got.len().min(want.len()));
            let detail = format!(
                "program {} : {} probe events, documented sequence has {} ; first difference at event {}: got {:?} expected {:?} ; left behind: INDEX{} INTVECTOR{} CODE{} INTEGER{}",
                prog,
                got.len(),
                want.len(),
                first,
                got.get(first),
                want.get(first),
                fin.comp_str(St::Index),
                fin.comp_str(St::IV),
                fin.comp_str(St::Code),
                fin.comp_str(St::Int)
            );
            if has_code && step_violations == 0 {
                // every single step followed the (test-pinned) unfolding shape, yet the loop as a
                // whole does not iterate as documented: the known CODE.LOOP re-arm defect
                ctx.rec.violation("C06", "CODE.LOOP|documented-iterations-violated(rearm-takes-no-body)", &detail, "");
            } else {
                let kinds: String = {
                    let mut s: Vec<char> = shape.chars().filter(|c| *c != ')').collect();
                    s.sort();
                    s.dedup();
                    s.into_iter().collect()
                };
                ctx.rec.violation("C06", &format!("loop-trace|mismatch|kinds:{}", kinds), &detail, "");
            }
        }
        ctx.rec.cover(&format!("trace|{}|n{}", shape.chars().take(12).collect::<String>(), want.len().min(40)));
        if k % 300 == 0 {
            ctx.rec.sample("loop-program", &format!("{}  => {} probe events, first {:?}", prog, got.len(), got.first()));
        }
    }
}

const COMBINATORS: [&str; 18] = [
    "EXEC.IF", "EXEC.K", "EXEC.S", "EXEC.Y", "EXEC.DUP", "EXEC.LOOP", "EXEC.POP", "EXEC.SWAP", "CODE.IF", "CODE.DO", "CODE.DO*", "CODE.QUOTE", "CODE.LOOP", "INTVECTOR.LOOP", "INDEX.DEFINE", "INDEX.CURRENT", "INDEX.DESTINATION", "INDEX.INCREASE",
];

fn single_steps(ctx: &mut Ctx) {
    let (mut is, names) = new_iset();
    let cache = sorted_cache(&is);
    let judge = Judge { frame: true, reference: true };
    let n = ctx.n(40000, 1000000);
    for k in 0..n as u64 {
        if !ctx.mine(k) {
            continue;
        }
        let mut r = Rng::derive(ctx.seed, &[6, 1, k]);
        let mut s = gen::snap(&mut r, &StateOpts { vals: Vals::Small, max_depth: 4, graphs: false, io: false, bindings: true, flags: false, random_cfg: false }, &names);
        if k % 3 == 0 {
            s.x.insert(0, (r.below(4), r.below(5)));
        }
        let mut st = build_state(&s);
        ctx.rec.case_marker(k, "single step");
        if k % 5 == 4 {
            // list unpacking: first element must end up on top
            let l = if k % 25 == 24 {
                // long lists: every element must still be executed, in order
                let n = *r.pick(&[17usize, 63, 64, 65, 127, 128, 129, 130, 255, 256, 257, 511, 513, 1025]);
                SItem::List((0..n).map(|j| if j % 7 == 3 { SItem::Bool(true) } else { SItem::Int(j as i32) }).collect())
            } else {
                match gen::item(&mut r, 2, &gen::ItemOpts::all(Vals::Small), &names) {
                    i @ SItem::Instr(_) => SItem::List(vec![i]),
                    o => o,
                }
            };
            st.exec_stack.push(l.to_item());
            let ev = judged_exec_step("C06", &mut st, &mut is, &cache, &mut ctx.rec, judge, "list/literal step");
            ctx.rec.count("steps", 1);
            ctx.rec.cover(&format!("plain|{}|e{}", match ev.item { Some(SItem::List(ref v)) => format!("list{}", v.len().min(5)), Some(SItem::Name(_)) => "name".into(), _ => "lit".into() }, ev.pre.e.len().min(4)));
        } else {
            let name = COMBINATORS[(k as usize / 5) % COMBINATORS.len()];
            let ev = judged_step("C06", name, &mut st, &mut is, &cache, &mut ctx.rec, judge, "combinator step");
            ctx.rec.count("steps", 1);
            ctx.rec.set_add("instructions", name);
            ctx.rec.cover(&format!("{}|e{}c{}b{}x{}|{:?}", name, ev.pre.e.len().min(4), ev.pre.c.len().min(3), ev.pre.b.len().min(2), ev.pre.x.len().min(2), ev.fired));
            if k % 2500 < 5 {
                if let Some(p) = &ev.post {
                    ctx.rec.sample("combinator-step", &format!("{} : {}  =>  {}", name, ev.pre.summary(), p.summary()));
                }
            }
        }
    }
}

fn control_programs(ctx: &mut Ctx) {
    // random bodies over the whole control alphabet (incl. ones that pop INDEX, flush EXEC,
    // redefine the index): every step is judged against the documented unfolding rules
    let (mut is, names) = new_iset();
    let cache = sorted_cache(&is);
    let alphabet: Vec<String> = names
        .iter()
        .filter(|n| n.starts_with("EXEC.") || n.starts_with("INDEX.") || n.starts_with("CODE.") || n.starts_with("INTEGER.") || n.starts_with("BOOLEAN.") || *n == "INTVECTOR.LOOP" || n.starts_with("NAME."))
        .filter(|n| !n.ends_with(".RAND") && *n != "EXEC.CMD" && *n != "NAME.RANDBOUNDNAME")
        .cloned()
        .collect();
    let nprog = ctx.n(8000, 150000);
    for k in 0..nprog as u64 {
        if !ctx.mine(k) {
            continue;
        }
        let mut r = Rng::derive(ctx.seed, &[6, 3, k]);
        let pts = 5 + r.below(40);
        let prog = gen::program(&mut r, pts, 4, Vals::Small, &alphabet);
        let mut s = gen::snap(&mut r, &StateOpts { vals: Vals::Small, max_depth: 2, graphs: false, io: false, bindings: true, flags: false, random_cfg: false }, &alphabet);
        s.e = vec![prog.clone()];
        let mut st = build_state(&s);
        ctx.rec.case_marker(k, &format!("control program {}", prog));
        let mut steps = 0;
        while st.exec_stack.size() > 0 && steps < 400 {
            // envelope: stop before code explodes (EXEC.Y / EXEC.S / CODE.LIST growth)
            if crate::alloc::stats().live > (64 << 20) {
                break;
            }
            // the reference is applied to control-flow steps only; what INTEGER.% etc. compute is
            // C04's business (frame rules still apply to every step)
            let is_control = match SItem::of(st.exec_stack.get(0).unwrap()) {
                SItem::Instr(n) => n.starts_with("EXEC.") || n.starts_with("INDEX.") || n == "INTVECTOR.LOOP" || matches!(n.as_str(), "CODE.IF" | "CODE.DO" | "CODE.DO*" | "CODE.QUOTE" | "CODE.LOOP" | "CODE.POP"),
                _ => true,
            };
            let j = Judge { frame: true, reference: is_control };
            let ev = judged_exec_step("C06", &mut st, &mut is, &cache, &mut ctx.rec, j, "control program");
            steps += 1;
            if ev.post.is_none() {
                break;
            }
        }
        ctx.rec.count("steps", steps);
        ctx.rec.count("control_programs", 1);
        ctx.rec.cover(&format!("ctl|{}|{}", steps.min(60), pts / 5));
        if k % 600 == 0 {
            ctx.rec.sample("control-program", &format!("{} ({} steps judged)", prog, steps));
        }
    }
}

/// literals that put the operands instruction `name` needs (frame table) onto its stacks
fn prep_for(name: &str, r: &mut Rng) -> Vec<SItem> {
    let i = |n: &str| SItem::Instr(n.to_string());
    let mut v = vec![];
    if let Some(fr) = crate::frame::frame(name) {
        for (st, n) in fr.needs.iter() {
            let n = (*n).min(4);
            for j in 0..n {
                match st {
                    St::Bool => v.push(SItem::Bool(r.bool())),
                    St::Int => v.push(SItem::Int(1 + r.below(3) as i32)),
                    St::Float => v.push(SItem::Float(fb(0.5 + j as f32))),
                    St::Name => {
                        v.push(i("NAME.QUOTE"));
                        v.push(SItem::Name(format!("n{}", j)));
                    }
                    St::Code => {
                        v.push(i("CODE.QUOTE"));
                        v.push(SItem::List(vec![SItem::Int(40 + j as i32), SItem::Bool(true)]));
                    }
                    St::BV => v.push(SItem::BV(vec![true, false])),
                    St::IV => v.push(SItem::IV(vec![3, 1, 2])),
                    St::FV => v.push(SItem::FV(vec![fb(1.0), fb(2.5)])),
                    St::Graph => v.push(i("GRAPH.ADD")),
                    _ => {}
                }
            }
        }
    }
    v
}

/// Context sweep: EVERY registered instruction executed as the LAST item of a body inside the
/// interpreter's own control structures (EXEC.LOOP plain and nested, INTVECTOR.LOOP, CODE.DO,
/// CODE.DO*, EXEC.IF, EXEC.K), i.e. with the interpreter-made continuation items (loop re-entry
/// lists, pending CODE.POP, branch remainders) on top of EXEC and loop indices on the INDEX
/// stack when it runs. Every step is judged; `judge_of` picks the judge per instruction.
pub fn context_sweep(ctx: &mut Ctx, prop: &str, judge_of: &dyn Fn(&str) -> Judge) {
    let (mut is, names) = new_iset();
    let cache = sorted_cache(&is);
    let i = |n: &str| SItem::Instr(n.to_string());
    let variants = ctx.n(2, 12);
    let mut case: u64 = 7_000_000;
    for name in names.iter() {
        if name.contains("RAND") || name == "EXEC.Y" || name == "EXEC.FLUSH" {
            continue;
        }
        for template in 0..7usize {
            for var in 0..variants {
                case += 1;
                if !ctx.mine(case) {
                    continue;
                }
                let mut r = Rng::derive(ctx.seed, &[6, 9, case]);
                let mut body = prep_for(name, &mut r);
                if var % 2 == 1 {
                    body.insert(0, SItem::Int(7));
                }
                body.push(i(name));
                let body = SItem::List(body);
                let prog = match template {
                    0 => vec![SItem::Int(2 + (var % 2) as i32), i("INDEX.DEFINE"), i("EXEC.LOOP"), body],
                    1 => vec![SItem::Int(2), i("INDEX.DEFINE"), i("EXEC.LOOP"), SItem::List(vec![SItem::Int(2), i("INDEX.DEFINE"), i("EXEC.LOOP"), body])],
                    2 => vec![SItem::IV(vec![4, 5, 6]), i("INTVECTOR.LOOP"), body],
                    3 => vec![i("CODE.QUOTE"), body, i("CODE.DO*"), SItem::Int(9)],
                    4 => vec![i("CODE.QUOTE"), body, i("CODE.DO"), SItem::Int(9)],
                    5 => vec![SItem::Bool(var % 2 == 0), i("EXEC.IF"), body, SItem::List(vec![SItem::Int(8)]), SItem::Int(9)],
                    _ => vec![i("EXEC.K"), body, SItem::List(vec![SItem::Int(8)]), SItem::Int(9)],
                };
                let mut s = if var % 3 == 2 { gen::snap(&mut r, &StateOpts { vals: Vals::Small, max_depth: 2, graphs: true, io: true, bindings: false, flags: false, random_cfg: false }, &names) } else { Snap::empty() };
                s.e = vec![SItem::List(prog)];
                s.q = false;
                let mut st = build_state(&s);
                ctx.rec.case_marker(case, &format!("context {} of {}", template, name));
                let mut steps = 0u64;
                while st.exec_stack.size() > 0 && steps < 300 {
                    if crate::alloc::stats().live > (64 << 20) {
                        break;
                    }
                    let j = match SItem::of(st.exec_stack.get(0).unwrap()) {
                        SItem::Instr(n) => judge_of(&n),
                        _ => Judge { frame: true, reference: true },
                    };
                    let ev = judged_exec_step(prop, &mut st, &mut is, &cache, &mut ctx.rec, j, &format!("{} as last body item, context template {}", name, template));
                    steps += 1;
                    if ev.post.is_none() {
                        break;
                    }
                }
                ctx.rec.count("steps", steps);
                ctx.rec.count("context_sweep_programs", 1);
                ctx.rec.cover(&format!("ctx|{}|{}", name, template));
            }
        }
    }
}

pub fn run(ctx: &mut Ctx) {
    let control = |n: &str| Judge { frame: true, reference: n.starts_with("EXEC.") || n.starts_with("INDEX.") || n == "INTVECTOR.LOOP" || matches!(n, "CODE.IF" | "CODE.DO" | "CODE.DO*" | "CODE.QUOTE" | "CODE.LOOP" | "CODE.POP") };
    context_sweep(ctx, "C06", &control);
    ctx.rec.checkpoint();
    single_steps(ctx);
    ctx.rec.checkpoint();
    loop_traces(ctx);
    ctx.rec.checkpoint();
    control_programs(ctx);
    ctx.rec.checkpoint();
}
