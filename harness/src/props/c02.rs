//! C02 — the run loop honours step, growth and time limits and reports the right outcome.
//! P: run() against an independent shadow accounting of repeated step() calls;
//! T: online predicate over the run-loop observer hook's event stream;
//! plus: a step on an empty EXEC stack reports completion and changes nothing.

use crate::gen::{self, StateOpts, Vals};
use crate::mon::{guarded, new_iset, panic_sig, sorted_cache};
use crate::rng::Rng;
use crate::snap::*;
use crate::Ctx;
use pushr::push::instructions::{Instruction, InstructionCache, InstructionSet};
use pushr::push::interpreter::verif::{set_observer, RunEvent};
use pushr::push::interpreter::{PushInterpreter, PushInterpreterState};
use pushr::push::state::PushState;
use std::cell::RefCell;

#[derive(Clone, Debug)]
struct Ev {
    ev: RunEvent,
    my_size: usize,
    exec_depth: usize,
}

thread_local! {
    static EVENTS: RefCell<Vec<Ev>> = RefCell::new(vec![]);
}

fn size9(s: &PushState) -> usize {
    s.bool_stack.size() + s.float_stack.size() + s.int_stack.size() + s.name_stack.size() + s.code_stack.size() + s.exec_stack.size() + s.bool_vector_stack.size() + s.float_vector_stack.size() + s.int_vector_stack.size()
}

fn install_observer() {
    set_observer(Some(Box::new(|ev: &RunEvent, st: &PushState| {
        EVENTS.with(|e| e.borrow_mut().push(Ev { ev: ev.clone(), my_size: size9(st), exec_depth: st.exec_stack.size() }));
    })));
}

fn sleep_instr(_s: &mut PushState, _c: &InstructionCache) {
    std::thread::sleep(std::time::Duration::from_millis(300));
}

/// a step that is slow AND big: sleeps 150 ms and pushes 50 integers (limits in combination)
fn slow_burst_instr(s: &mut PushState, _c: &InstructionCache) {
    std::thread::sleep(std::time::Duration::from_millis(150));
    burst_instr(s, _c);
}

fn burst_instr(s: &mut PushState, _c: &InstructionCache) {
    for j in 0..50 {
        s.int_stack.push(j);
    }
}

fn outcome_name(o: &PushInterpreterState) -> &'static str {
    match o {
        PushInterpreterState::NoErrors => "NoErrors",
        PushInterpreterState::StepLimitExceeded => "StepLimitExceeded",
        PushInterpreterState::TimeLimitExceeded => "TimeLimitExceeded",
        PushInterpreterState::GrowthCapExceeded => "GrowthCapExceeded",
    }
}

/// shadow accounting: returns (needed steps or None if still running after `cap_steps`,
/// first step (1-based) whose growth exceeded the cap, states after each step)
struct Shadow {
    needed: Option<usize>,
    growth_at: Option<usize>,
    /// digest of the state after k steps (index 0 = after the copy to CODE)
    digests: Vec<u64>,
    /// full snapshots for the first steps, the steps around the budget and the last step
    /// (keeping all of them would be quadratic for long runs)
    full: std::collections::BTreeMap<usize, Snap>,
    size0: usize,
}

impl Shadow {
    fn check(&self, k: usize, got: &Snap) -> Result<(), String> {
        match self.digests.get(k) {
            None => Err(format!("shadow accounting stopped after {} steps", self.digests.len() - 1)),
            Some(d) => {
                if *d == got.digest() {
                    Ok(())
                } else {
                    Err(match self.full.get(&k) {
                        Some(want) => want.diff_text(got),
                        None => format!("digest of the state after {} single steps differs", k),
                    })
                }
            }
        }
    }
}

fn shadow(init: &Snap, is: &mut InstructionSet, cache: &InstructionCache, max_steps: usize, cap: usize) -> Result<Shadow, String> {
    let mut st = build_state(init);
    // the program is copied from EXEC onto CODE first (own code, same rule)
    if let Some(v) = st.exec_stack.copy_vec(st.exec_stack.size()) {
        st.code_stack.push_vec(v);
    }
    let s0 = Snap::of(&st);
    let mut sh = Shadow { needed: None, growth_at: None, digests: vec![s0.digest()], full: Default::default(), size0: s0.size9() };
    sh.full.insert(0, s0);
    for k in 1..=max_steps {
        if st.exec_stack.size() == 0 {
            sh.needed = Some(k - 1);
            return Ok(sh);
        }
        let before = size9(&st);
        guarded(|| PushInterpreter::step(&mut st, is, cache))?;
        let after = size9(&st);
        let snap = Snap::of(&st);
        sh.digests.push(snap.digest());
        let grew = sh.growth_at.is_none() && after > before.saturating_add(cap);
        if k <= 3 || k + 8 >= max_steps || grew || st.exec_stack.size() == 0 {
            sh.full.insert(k, snap);
        }
        if grew {
            sh.growth_at = Some(k);
        }
    }
    if st.exec_stack.size() == 0 {
        sh.needed = Some(max_steps);
    }
    Ok(sh)
}

fn rand_free(names: &[String]) -> Vec<String> {
    names.iter().filter(|n| !n.contains("RAND") && !n.starts_with("GRAPH.") && *n != "EXEC.CMD").cloned().collect()
}

pub fn run(ctx: &mut Ctx) {
    let (mut is, names) = new_iset();
    is.add("VERIF.SLEEP".to_string(), Instruction::new(sleep_instr));
    is.add("VERIF.SLOWBURST".to_string(), Instruction::new(slow_burst_instr));
    // resource envelope (as in C01): a program that explodes is skipped, not judged
    crate::props::c01::wrap_all(&mut is, &names);
    let cache = sorted_cache(&is);
    let alphabet = rand_free(&names);
    install_observer();
    let i = |n: &str| SItem::Instr(n.to_string());
    let ncase = ctx.n(12000, 300000);
    for k in 0..ncase as u64 {
        if !ctx.mine(k) {
            continue;
        }
        let mut r = Rng::derive(ctx.seed, &[2, k]);
        // one case in 25 uses the default limits (1000 steps, cap 500)
        // mostly small limits; one case in 25 uses the default (1000); one in 40 a large budget
        // (2048..10000: thresholds, polling intervals and counters tied to the budget's magnitude)
        let big_limit = if ctx.quick() { k % 40 == 39 && (ctx.profile == "release" || k % 320 == 39) } else { k % 400 == 39 && (ctx.profile == "release" || k % 3200 == 39) };
        let limit: i32 = if big_limit {
            // (budgets around 2^11, 2^12, 2^16 and 2^17: counters narrower than the budget's type wrap there)
            // (fuzz mode: the budgets up to 10000 only - one execution must stay fast)
            *r.pick(if ctx.is_fuzz() { &[2047, 2048, 2049, 3000, 4097, 5000, 10000][..] } else { &[2047, 2048, 2049, 3000, 4097, 5000, 10000, 65535, 65536, 65537, 70000, 131073][..] })
        } else if k % 25 == 24 {
            1000
        } else if k % 50 == 13 {
            // the usual way to say "no limit" (terminating families only, see below)
            *r.pick(&[i32::MAX, i32::MAX - 1])
        } else {
            *r.pick(&[-1, 0, 1, 2, 3, 5, 10, 17, 40, 100])
        };
        // growth caps: small, the default, and the extremes of the type (a cap nobody can exceed)
        let cap: usize = if big_limit { 100_000 } else if k % 25 == 24 { 500 } else if k % 50 == 7 { *r.pick(&[usize::MAX, usize::MAX - 1, usize::MAX / 2 + 1]) } else { *r.pick(&[0, 1, 2, 3, 5, 8, 20, 500]) };
        // ---- program families --------------------------------------------------------------
        // (budgets beyond 10000: the diverging family only - its state stays small, so the shadow stays linear)
        let family = if limit >= i32::MAX - 1 { 2 } else if big_limit && limit > 10000 { 1 } else if big_limit { k / 40 % 2 } else { k % 8 };
        let mut s = if family >= 5 { gen::snap(&mut r, &StateOpts { vals: Vals::Small, max_depth: 3, graphs: false, io: true, bindings: true, flags: false, random_cfg: false }, &alphabet) } else { Snap::empty() };
        s.e.clear();
        s.q = false;
        // flat: the program's items lie on EXEC one by one (as after parsing `1 2 INTEGER.DDUP`)
        // instead of as one list whose unpacking is itself a growth step
        let mut flat = false;
        let prog = match family {
            0 => {
                // terminates in exactly n non-final steps, for every n around the limit
                let n = (limit + r.range(-2, 3) as i32).max(1) as usize;
                let mut v: Vec<SItem> = (0..n - 1).map(|j| SItem::Int(j as i32)).collect();
                // one case in three: the LAST step is the one that grows the state (EXEC is empty
                // afterwards, nothing is left to run): the cap must be judged on that step too
                if r.chance(1, 3) {
                    flat = true;
                    if v.len() < 2 {
                        v.insert(0, SItem::Int(7));
                        v.insert(0, SItem::Int(8));
                    }
                    v.push(i(*r.pick(&["INTEGER.DDUP", "INTEGER.DDUP", "INPUT.READ", "INTEGER.DUP"])));
                }
                SItem::List(v)
            }
            1 => {
                // diverges
                match r.below(3) {
                    0 => SItem::List(vec![i("EXEC.Y"), SItem::List(vec![i("NOOP")])]),
                    1 => {
                        s.nb.insert("loop".into(), SItem::Name("loop".into()));
                        SItem::Name("loop".into())
                    }
                    _ => SItem::List(vec![SItem::Int(1000000), i("INDEX.DEFINE"), i("EXEC.LOOP"), SItem::List(vec![i("INDEX.CURRENT"), i("INTEGER.POP")])]),
                }
            }
            2 => {
                // one step grows the state by exactly g items, for every g around the cap
                let g = if cap > 1_000_000 { 3 + r.below(40) } else { (cap as i64 + r.range(-2, 3)).max(0) as usize };
                let lead = r.below(4);
                let mut v: Vec<SItem> = (0..lead).map(|_| i("NOOP")).collect();
                // a list of g+1 literals: unpacking replaces 1 item by g+1 (growth g)
                v.push(SItem::List((0..g + 1).map(|j| SItem::Bool(j % 2 == 0)).collect()));
                v.push(SItem::Int(7));
                SItem::List(v)
            }
            3 => {
                // growth through a wide record: LIST.GET copies a list, its unpacking explodes
                let g = if cap > 1_000_000 { 3 + r.below(40) } else { (cap as i64 + r.range(-1, 2)).max(0) as usize };
                s.c = vec![SItem::List((0..g + 1).map(|j| SItem::Int(j as i32)).collect())];
                SItem::List(vec![SItem::Int(0), i("LIST.GET"), i("NOOP")])
            }
            4 => {
                // doubling under EXEC.Y
                SItem::List(vec![SItem::Int(1), i("EXEC.Y"), SItem::List(vec![i("INTEGER.DUP"), i("INTEGER.DUP")])])
            }
            _ => {
                let pts = 3 + r.below(40);
                let d = 1 + r.below(4);
                flat = r.chance(1, 4);
                gen::program(&mut r, pts, d, Vals::Small, &alphabet)
            }
        };
        s.e = vec![prog.clone()];
        if flat {
            if let SItem::List(v) = &prog {
                s.e = v.clone();
            }
        }
        // one case in nine starts with a CODE stack that already EQUALS the EXEC stack (the front end's
        // flow: parse, copy to CODE, then run): the program must be copied again all the same
        if k % 9 == 4 {
            s.c = s.e.clone();
        }
        s.cfg.eval_push_limit = limit;
        s.cfg.growth_cap = cap;
        s.cfg.eval_time_limit = 600_000; // time can never be the cause here
        ctx.rec.case_marker(k, &format!("run limit={} cap={} program {}", limit, cap, prog));
        let budget = (limit.max(0) as usize) + 3;
        crate::props::c01::ENV_EXIT.with(|e| e.set(false));
        let sh = match shadow(&s, &mut is, &cache, budget + 2, cap) {
            Ok(x) => x,
            Err(p) => {
                ctx.rec.violation("C02", &format!("step|panic|{}", panic_sig(&p)), &format!("{} ; program {}", p, prog), "");
                continue;
            }
        };
        // the real run
        let mut st = build_state(&s);
        EVENTS.with(|e| e.borrow_mut().clear());
        let res = guarded(|| PushInterpreter::run(&mut st, &mut is));
        if crate::props::c01::ENV_EXIT.with(|e| e.get()) {
            ctx.rec.count("outside_envelope_skipped", 1);
            continue;
        }
        ctx.rec.count("runs", 1);
        let outcome = match res {
            Ok(o) => o,
            Err(p) => {
                ctx.rec.violation("C02", &format!("run|panic|{}", panic_sig(&p)), &format!("{} ; program {}", p, prog), "");
                continue;
            }
        };
        let oname = outcome_name(&outcome);
        ctx.rec.set_add("outcomes", oname);
        let events = EVENTS.with(|e| e.borrow().clone());
        ctx.rec.count("hook_events", events.len() as u64);
        let steps_done = events.iter().filter(|e| matches!(e.ev, RunEvent::Step { .. })).count();
        ctx.rec.max("max_steps_over_limit", (steps_done as i64 - limit as i64).max(0) as u64);
        let fin = Snap::of(&st);
        let l = limit as i64;
        let info = format!("limit={} cap={} needed={:?} growth_at={:?} outcome={} steps_executed={} program {}", limit, cap, sh.needed, sh.growth_at, oname, steps_done, prog);
        let mut bad = |ctx: &mut Ctx, class: &str, text: String| ctx.rec.violation("C02", &format!("run|{}", class), &format!("{} ; {}", text, info), "");
        // (a) never more than limit+1 steps
        if steps_done as i64 > (l + 1).max(0) {
            bad(ctx, "too-many-steps", format!("{} steps executed with eval_push_limit {}", steps_done, limit));
        }
        // (b) the state left behind is the state after the same number of single steps
        //     (a NoErrors run ends with one more step() call that finds EXEC empty and changes nothing)
        if steps_done >= sh.digests.len() {
            bad(ctx, "too-many-steps", format!("{} steps executed, shadow stopped at {}", steps_done, sh.digests.len() - 1));
        } else if let Err(t) = sh.check(steps_done, &fin) {
            bad(ctx, "state-differs-from-single-stepping", format!("after {} steps: {}", steps_done, t));
        }
        // (c) the outcome
        let growth_in_budget = sh.growth_at.map(|g| (g as i64) <= l).unwrap_or(false);
        let growth_tolerance = sh.growth_at.map(|g| g as i64 == l + 1).unwrap_or(false);
        // steps are only meaningful up to the first growth violation
        let needed_before_growth = match (sh.needed, sh.growth_at) {
            (Some(n), Some(g)) => {
                if n < g {
                    Some(n)
                } else {
                    None
                }
            }
            (n, None) => n,
            (None, Some(_)) => None,
        };
        match outcome {
            PushInterpreterState::TimeLimitExceeded => bad(ctx, "time-limit-without-cause", "TimeLimitExceeded although the time limit is 10 minutes".into()),
            PushInterpreterState::GrowthCapExceeded => {
                if sh.growth_at != Some(steps_done + 1) && sh.growth_at != Some(steps_done) {
                    bad(ctx, "growth-cap-without-growth", "GrowthCapExceeded but no single step grew the state by more than growth_cap at that point".into());
                }
            }
            PushInterpreterState::NoErrors => {
                if fin.e.len() != 0 {
                    bad(ctx, "no-errors-with-exec-left", "NoErrors although EXEC is not empty".into());
                }
                if growth_in_budget && sh.needed.map(|n| sh.growth_at.unwrap() <= n).unwrap_or(true) {
                    bad(ctx, "growth-cap-missed", "NoErrors although a step inside the budget grew the state by more than growth_cap".into());
                }
                if let Some(n) = needed_before_growth {
                    if n as i64 > l + 1 {
                        bad(ctx, "step-limit-missed", format!("NoErrors although the program needs {} steps", n));
                    }
                }
            }
            PushInterpreterState::StepLimitExceeded => {
                if let Some(n) = needed_before_growth {
                    if (n as i64) < l {
                        bad(ctx, "step-limit-too-early", format!("StepLimitExceeded although the program needs only {} steps", n));
                    }
                }
                if growth_in_budget && !growth_tolerance {
                    bad(ctx, "growth-cap-missed", "StepLimitExceeded although a step inside the budget grew the state by more than growth_cap".into());
                }
                if (steps_done as i64) < l.min(sh.needed.map(|n| n as i64).unwrap_or(i64::MAX)) && sh.growth_at.is_none() {
                    bad(ctx, "step-limit-too-early", format!("StepLimitExceeded after only {} steps", steps_done));
                }
            }
        }
        // (d) online trace predicate on the hook events
        let mut prev_size: Option<usize> = None;
        let mut counter_expect = 0;
        let mut seen_end = false;
        let mut over = false;
        for (j, e) in events.iter().enumerate() {
            match &e.ev {
                RunEvent::Start => {
                    if j != 0 {
                        bad(ctx, "trace|start-not-first", format!("Start at position {}", j));
                    }
                    if e.my_size != sh.size0 {
                        bad(ctx, "trace|copy-to-code", "state size after the initial copy to CODE differs from the shadow".into());
                    }
                    prev_size = Some(e.my_size);
                }
                RunEvent::Step { counter, size_before, size_after, .. } => {
                    if seen_end || over {
                        bad(ctx, "trace|step-after-end", "a step was executed after the cap was exceeded / after End".into());
                    }
                    if *counter != counter_expect {
                        bad(ctx, "trace|counter", format!("step counter {} where {} was expected", counter, counter_expect));
                    }
                    counter_expect = counter + 1;
                    if Some(*size_before) != prev_size {
                        bad(ctx, "trace|size-before", format!("size_before {} but the state had {:?} items after the previous event", size_before, prev_size));
                    }
                    if *size_after != e.my_size {
                        bad(ctx, "trace|size-after", format!("size_after {} but the monitor counts {}", size_after, e.my_size));
                    }
                    if *size_after > size_before.saturating_add(cap) {
                        over = true;
                    }
                    prev_size = Some(e.my_size);
                }
                RunEvent::End { outcome: o, .. } => {
                    seen_end = true;
                    if *o != oname {
                        bad(ctx, "trace|outcome", format!("End event says {} but run returned {}", o, oname));
                    }
                    if over != (*o == "GrowthCapExceeded") {
                        bad(ctx, "trace|growth-vs-outcome", format!("growth over cap observed = {} but outcome {}", over, o));
                    }
                    if *o == "NoErrors" && e.exec_depth != 0 {
                        bad(ctx, "trace|no-errors-with-exec-left", "End(NoErrors) with a non-empty EXEC stack".into());
                    }
                }
            }
        }
        if !seen_end {
            bad(ctx, "trace|no-end-event", "run returned without an End event".into());
        }
        let nd = sh.needed.map(|n| (n as i64 - l).clamp(-3, 4)).unwrap_or(9);
        let gd = sh.growth_at.map(|g| (g as i64 - l).clamp(-3, 4)).unwrap_or(9);
        ctx.rec.cover(&format!("fam{}|L{}|C{}|n-L{}|g-L{}|{}", family, limit, if cap > 1_000_000 { 999_999_999 } else { cap }, nd, gd, oname));
        if k % 700 == 0 {
            ctx.rec.sample("run", &info);
        }
    }
    ctx.rec.checkpoint();

    // ---- time limit: tiny limit + an instruction that sleeps (time must be the cause) ---------
    // (cases beyond the small ones use limits of about one second: 999, 1000, 1001, 1100 ms - a limit
    // compared in the wrong unit or on the sub-second part only passes every test with a 20 ms limit)
    let nsmall = ctx.n(6, 24) as u64;
    let ntime = if ctx.is_fuzz() { 0 } else { nsmall + 4 };
    for k in 0..ntime {
        if !ctx.mine(k) {
            continue;
        }
        let mut s = Snap::empty();
        let limit_ms: u64 = if k < nsmall { 20 } else { [999u64, 1000, 1001, 1100][(k - nsmall) as usize] };
        let nsleeps = if k < nsmall { 2 + (k % 3) as usize } else { 6 };
        let mut v: Vec<SItem> = (0..k % 3).map(|j| SItem::Int(j as i32)).collect();
        v.extend((0..nsleeps).map(|_| i("VERIF.SLEEP")));
        v.push(SItem::Int(99));
        s.e = vec![SItem::List(v)];
        s.cfg.eval_time_limit = limit_ms;
        s.cfg.eval_push_limit = 100000;
        s.cfg.growth_cap = 100000;
        ctx.rec.case_marker(1_000_000 + k, "time limit");
        let sh = shadow_nosleep(&s, &mut is, &cache);
        let mut st = build_state(&s);
        EVENTS.with(|e| e.borrow_mut().clear());
        let t0 = std::time::Instant::now();
        let res = guarded(|| PushInterpreter::run(&mut st, &mut is));
        let wall = t0.elapsed().as_millis();
        ctx.rec.count("runs", 1);
        ctx.rec.count("time_limit_runs", 1);
        ctx.rec.max("time_limit_case_wall_ms", wall as u64);
        match res {
            Ok(o) => {
                ctx.rec.set_add("outcomes", outcome_name(&o));
                let steps_done = EVENTS.with(|e| e.borrow().iter().filter(|e| matches!(e.ev, RunEvent::Step { .. })).count());
                if o != PushInterpreterState::TimeLimitExceeded {
                    ctx.rec.violation("C02", "run|time-limit-missed", &format!("limit {} ms, program sleeps {} x 300 ms, outcome {} after {} steps and {} ms", limit_ms, nsleeps, outcome_name(&o), steps_done, wall), "");
                } else {
                    // stopped at the first check after the first sleep; state = shadow after the same steps
                    // (for a limit of L ms: the sleep number L/300 + 1 is the first one after which L ms have surely passed)
                    let first_sleep_step = 1 + (k % 3) as usize + 1 + (limit_ms / 300) as usize;
                    // earlier is legitimate on a loaded machine (the 20 ms may pass before the
                    // sleep); later is not: after the sleep at least 300 ms have passed
                    if steps_done > first_sleep_step {
                        ctx.rec.violation("C02", "run|time-limit-late", &format!("stopped after {} steps, the first sleep completes at step {}", steps_done, first_sleep_step), "");
                    }
                    if let Some(want) = sh.get(steps_done) {
                        let fin = Snap::of(&st);
                        if *want != fin {
                            ctx.rec.violation("C02", "run|state-differs-from-single-stepping", &format!("time-limit case: {}", want.diff_text(&fin)), "");
                        }
                    }
                }
                ctx.rec.cover(&format!("time|{}|{}", nsleeps, k % 3));
            }
            Err(p) => ctx.rec.violation("C02", &format!("run|panic|{}", panic_sig(&p)), &p, ""),
        }
    }

    // ---- limits in combination: ONE step that is both slow (crosses the wall-clock limit) and big (exceeds the
    // growth cap). "GrowthCapExceeded exactly when a single step enlarged the state by more than growth_cap":
    // once that step has been executed the outcome must be GrowthCapExceeded, however long the step took.
    // (A run that is stopped by the clock BEFORE the big step started is legitimate on a starved machine.)
    let ncombo = if ctx.is_fuzz() { 0 } else { ctx.n(6, 18) as u64 };
    for k in 0..ncombo {
        if !ctx.mine(k) {
            continue;
        }
        let mut s = Snap::empty();
        let nlead = (k % 3) as usize;
        let limit_ms: u64 = [60u64, 100, 140][(k / 3 % 3) as usize];
        let mut v: Vec<SItem> = (0..nlead).map(|j| SItem::Int(j as i32)).collect();
        v.push(i("VERIF.SLOWBURST"));
        v.push(SItem::Int(99));
        s.e = vec![SItem::List(v)];
        s.cfg.eval_time_limit = limit_ms;
        s.cfg.eval_push_limit = if k % 2 == 0 { 100000 } else { (nlead + 1) as i32 }; // or: the big step is also the last budgeted one
        s.cfg.growth_cap = 10;
        ctx.rec.case_marker(1_100_000 + k, "slow and big step");
        let sh = shadow_nosleep(&s, &mut is, &cache);
        let mut st = build_state(&s);
        EVENTS.with(|e| e.borrow_mut().clear());
        let res = guarded(|| PushInterpreter::run(&mut st, &mut is));
        ctx.rec.count("runs", 1);
        ctx.rec.count("combined_limit_runs", 1);
        match res {
            Ok(o) => {
                ctx.rec.set_add("outcomes", outcome_name(&o));
                let steps_done = EVENTS.with(|e| e.borrow().iter().filter(|e| matches!(e.ev, RunEvent::Step { .. })).count());
                let burst_step = 1 + nlead + 1; // the list is unpacked, the leading integers, then the burst
                if steps_done < burst_step {
                    // stopped before the big step: only the clock may have done that
                    if o != PushInterpreterState::TimeLimitExceeded {
                        ctx.rec.violation("C02", "run|combined-limits|stopped-early", &format!("outcome {} after {} steps, the big step is number {}", outcome_name(&o), steps_done, burst_step), "");
                    }
                    ctx.rec.count("combined_limit_runs_starved", 1);
                } else {
                    ctx.rec.count("combined_limit_runs_judged", 1);
                    if o != PushInterpreterState::GrowthCapExceeded {
                        ctx.rec.violation("C02", "run|growth-cap-masked-by-another-limit", &format!("step {} took 150 ms (time limit {} ms, step budget {}) and pushed 50 items (growth_cap 10): outcome {}", burst_step, limit_ms, s.cfg.eval_push_limit, outcome_name(&o)), "");
                    }
                    if steps_done != burst_step {
                        ctx.rec.violation("C02", "run|combined-limits|ran-on", &format!("{} steps executed, the big step is number {}", steps_done, burst_step), "");
                    }
                }
                if let Some(want) = sh.get(steps_done) {
                    let fin = Snap::of(&st);
                    if *want != fin {
                        ctx.rec.violation("C02", "run|state-differs-from-single-stepping", &format!("combined-limits case: {}", want.diff_text(&fin)), "");
                    }
                }
                ctx.rec.cover(&format!("combo|{}|{}|{}", nlead, limit_ms, k % 2));
            }
            Err(p) => ctx.rec.violation("C02", &format!("run|panic|{}", panic_sig(&p)), &p, ""),
        }
    }

    // ---- a step on an empty EXEC stack reports completion and changes nothing ----------------
    let nempty = ctx.n(3000, 60000);
    for k in 0..nempty as u64 {
        if !ctx.mine(k) {
            continue;
        }
        let mut r = Rng::derive(ctx.seed, &[2, 7, k]);
        let mut s = gen::snap(&mut r, &StateOpts::rich(Vals::Mixed), &names);
        s.e.clear();
        let mut st = build_state(&s);
        let pre = Snap::of(&st);
        match guarded(|| PushInterpreter::step(&mut st, &mut is, &cache)) {
            Ok(done) => {
                let post = Snap::of(&st);
                ctx.rec.count("empty_exec_steps", 1);
                if !done || post != pre {
                    ctx.rec.violation("C02", "step|empty-exec", &format!("done={} ; {}", done, pre.diff_text(&post)), "");
                }
            }
            Err(p) => ctx.rec.violation("C02", &format!("step|panic|{}", panic_sig(&p)), &p, ""),
        }
        ctx.rec.cover(&format!("empty|{}|{}", pre.size9().min(20), pre.q));
    }
    set_observer(None);
    ctx.rec.checkpoint();
}

/// shadow states for the time-limit programs, with VERIF.SLEEP replaced by a no-op
fn shadow_nosleep(init: &Snap, _is: &mut InstructionSet, _cache: &InstructionCache) -> Vec<Snap> {
    let (mut is2, _) = new_iset();
    is2.add("VERIF.SLEEP".to_string(), Instruction::new(|_s: &mut PushState, _c: &InstructionCache| {}));
    is2.add("VERIF.SLOWBURST".to_string(), Instruction::new(burst_instr));
    let cache2 = sorted_cache(&is2);
    let mut st = build_state(init);
    if let Some(v) = st.exec_stack.copy_vec(st.exec_stack.size()) {
        st.code_stack.push_vec(v);
    }
    let mut v = vec![Snap::of(&st)];
    for _ in 0..40 {
        if st.exec_stack.size() == 0 {
            break;
        }
        PushInterpreter::step(&mut st, &mut is2, &cache2);
        v.push(Snap::of(&st));
    }
    v
}
