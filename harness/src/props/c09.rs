//! C09 — vector instructions follow the README rules for lengths, offsets and indices.
//! All length pairs x all offsets for the overlap family, all indices for GET/SET, value pools
//! for the rest; dispatch is checked because the reference is selected by the NAME.

use crate::dmon::{judged_step, Judge};
use crate::frame::{check_frame, frame};
use crate::gen::{self, StateOpts, Vals};
use crate::mon::{guarded, new_iset, panic_sig, sorted_cache};
use crate::refm::check_fired;
use crate::rng::Rng;
use crate::snap::*;
use crate::Ctx;
use pushr::push::instructions::InstructionCache;
use pushr::push::vector::{int_vector_divide, int_vector_multiply};

const OVERLAP: [&str; 9] = ["BOOLVECTOR.AND", "BOOLVECTOR.OR", "BOOLVECTOR.NOT", "INTVECTOR.+", "INTVECTOR.-", "FLOATVECTOR.+", "FLOATVECTOR.-", "FLOATVECTOR.*", "FLOATVECTOR./"];

fn vec_b(r: &mut Rng, n: usize) -> Vec<bool> {
    (0..n).map(|_| r.bool()).collect()
}
fn vec_i(r: &mut Rng, n: usize, m: Vals) -> Vec<i32> {
    (0..n).map(|_| gen::int(r, m)).collect()
}
fn vec_f(r: &mut Rng, n: usize, m: Vals) -> Vec<u32> {
    (0..n).map(|_| fb(gen::float(r, m))).collect()
}

fn base_state(r: &mut Rng, names: &[String], rich: bool) -> Snap {
    let mut s = gen::snap(r, &StateOpts { vals: Vals::Small, max_depth: 2, graphs: false, io: rich, bindings: rich, flags: false, random_cfg: false }, names);
    s.q = false;
    s
}

pub fn run(ctx: &mut Ctx) {
    let (mut is, names) = new_iset();
    let cache = sorted_cache(&is);
    let judge = Judge { frame: true, reference: true };
    let maxlen = ctx.n(4, 7);
    let draws = ctx.n(4, 24);
    let mut case: u64 = 0;

    // (1) overlap family: all length pairs x all offsets
    let mut offsets: Vec<i32> = (-(maxlen as i32) - 2..=(maxlen as i32) + 2).collect();
    offsets.extend([i32::MIN, i32::MIN + 1, i32::MAX, i32::MAX - 1]);
    let mut all_ops: Vec<String> = OVERLAP.iter().map(|s| s.to_string()).collect();
    all_ops.push("INTVECTOR.*".into());
    all_ops.push("INTVECTOR./".into());
    for op in all_ops.iter() {
        let registered = names.contains(op);
        if !registered && !(op == "INTVECTOR.*" || op == "INTVECTOR./") {
            ctx.rec.violation("C09", &format!("{}|not-registered", op), "documented vector instruction is not in the registry", "");
            continue;
        }
        if !registered {
            ctx.rec.set_add("unregistered_but_documented", op);
        }
        ctx.rec.set_add("instructions", op);
        for l_top in 0..=maxlen {
            for l_sec in 0..=maxlen {
                for off in offsets.iter() {
                    for dr in 0..draws {
                        case += 1;
                        if !ctx.mine(case) {
                            continue;
                        }
                        let mut r = Rng::derive(ctx.seed, &[9, case]);
                        let vm = if dr == 0 { Vals::Small } else { Vals::Mixed };
                        let mut s = base_state(&mut r, &names, dr % 2 == 1);
                        if op.starts_with("BOOL") {
                            if op != "BOOLVECTOR.NOT" {
                                s.bv.insert(0, vec_b(&mut r, l_sec));
                            }
                            s.bv.insert(0, vec_b(&mut r, l_top));
                        } else if op.starts_with("INT") {
                            s.iv.insert(0, vec_i(&mut r, l_sec, vm));
                            s.iv.insert(0, vec_i(&mut r, l_top, vm));
                        } else {
                            s.fv.insert(0, vec_f(&mut r, l_sec, vm));
                            s.fv.insert(0, vec_f(&mut r, l_top, vm));
                        }
                        s.i.insert(0, *off);
                        let mut st = build_state(&s);
                        ctx.rec.case_marker(case, op);
                        ctx.rec.count("steps", 1);
                        let oc = if *off == i32::MIN || *off == i32::MIN + 1 { "min".to_string() } else if *off >= i32::MAX - 1 { "max".to_string() } else { off.to_string() };
                        ctx.rec.cover(&format!("{}|{}|{}|{}", op, l_top, l_sec, oc));
                        if registered {
                            let ev = judged_step("C09", op, &mut st, &mut is, &cache, &mut ctx.rec, judge, &format!("len_top={} len_second={} offset={}", l_top, l_sec, off));
                            if l_top == 3 && l_sec == 2 && *off == -1 && dr == 0 {
                                if let Some(p) = &ev.post {
                                    ctx.rec.sample("overlap", &format!("{} : {}  =>  {}", op, ev.pre.summary(), p.summary()));
                                }
                            }
                        } else {
                            // direct call of the unregistered pub fn, judged under the README name
                            let pre = Snap::of(&st);
                            let icache = InstructionCache::new(vec![]);
                            let res = guarded(|| {
                                if op == "INTVECTOR.*" {
                                    int_vector_multiply(&mut st, &icache)
                                } else {
                                    int_vector_divide(&mut st, &icache)
                                }
                            });
                            match res {
                                Err(p) => ctx.rec.violation("C09", &format!("{}|panic|{}", op, panic_sig(&p)), &format!("{} (pub fn, direct call) panicked: {} ; pre-state: {}", op, p, pre.summary()), ""),
                                Ok(()) => {
                                    let post = Snap::of(&st);
                                    let fr = frame(op).unwrap();
                                    if let Err((c, t)) = check_frame(op, &fr, &pre, &post) {
                                        ctx.rec.violation("C09", &format!("{}|{}", op, c), &format!("{} ; pre-state: {}", t, pre.summary()), "");
                                    }
                                    if fr.fires(&pre) {
                                        if let Err((c, t)) = check_fired(op, &pre, &post) {
                                            ctx.rec.violation("C09", &format!("{}|{}", op, c), &format!("{}: {} ; pre-state: {}", op, t, pre.summary()), "");
                                        }
                                    }
                                }
                            }
                        }
                    }
                }
            }
        }
    }

    // (1b) beyond the exhaustive grid: long vectors (up to 48) and arbitrary offsets
    let nlong = ctx.n(40000, 8000000);
    for k in 0..nlong as u64 {
        case += 1;
        if !ctx.mine(case) {
            continue;
        }
        let mut r = Rng::derive(ctx.seed, &[9, 77, k]);
        let op = all_ops[r.below(all_ops.len())].clone();
        if !names.contains(&op) {
            continue;
        }
        let (l_top, l_sec) = (r.below(49), r.below(49));
        let off: i32 = match r.below(5) {
            0 => -(l_top as i32),
            1 => l_sec as i32 - 1,
            2 => l_sec as i32,
            _ => r.range(-50, 50) as i32,
        };
        let vm = if k % 2 == 0 { Vals::Small } else { Vals::Mixed };
        let mut s = base_state(&mut r, &names, false);
        if op.starts_with("BOOL") {
            if op != "BOOLVECTOR.NOT" {
                s.bv.insert(0, vec_b(&mut r, l_sec));
            }
            s.bv.insert(0, vec_b(&mut r, l_top));
        } else if op.starts_with("INT") {
            s.iv.insert(0, vec_i(&mut r, l_sec, vm));
            s.iv.insert(0, vec_i(&mut r, l_top, vm));
        } else {
            s.fv.insert(0, vec_f(&mut r, l_sec, vm));
            s.fv.insert(0, vec_f(&mut r, l_top, vm));
        }
        s.i.insert(0, off);
        let mut st = build_state(&s);
        ctx.rec.case_marker(case, &op);
        ctx.rec.count("steps", 1);
        ctx.rec.count("long_vector_cases", 1);
        ctx.rec.cover(&format!("long|{}|{}|{}", op, l_top / 8, l_sec / 8));
        judged_step("C09", &op, &mut st, &mut is, &cache, &mut ctx.rec, judge, &format!("long: len_top={} len_second={} offset={}", l_top, l_sec, off));
    }

    // (2) every other registered vector instruction: lengths 0..maxlen, index / size operands
    // over {MIN,-1,0..len+1,MAX} (size operands kept small: the envelope is C15's business)
    let vec_names: Vec<String> = names.iter().filter(|n| n.starts_with("BOOLVECTOR.") || n.starts_with("INTVECTOR.") || n.starts_with("FLOATVECTOR.")).cloned().collect();
    for name in vec_names.iter() {
        if OVERLAP.contains(&name.as_str()) {
            continue;
        }
        ctx.rec.set_add("instructions", name);
        let sizey = name.ends_with(".ONES") || name.ends_with(".ZEROS") || name.ends_with(".RAND") || name.ends_with(".SINE");
        let mut lens: Vec<usize> = (0..=maxlen).collect();
        lens.extend([9, 16, 17, 33, 48]);
        for len in lens {
            let mut ops: Vec<i32> = vec![-1, 0];
            ops.extend(1..=(len as i32 + 1));
            if !sizey {
                ops.push(i32::MIN);
                ops.push(i32::MAX);
            } else {
                ops.push(12);
                ops.push(40);
            }
            for iv in ops.iter() {
                for dr in 0..draws * 2 {
                    case += 1;
                    if !ctx.mine(case) {
                        continue;
                    }
                    let mut r = Rng::derive(ctx.seed, &[9, case]);
                    let vm = if dr % 3 == 0 { Vals::Small } else { Vals::Mixed };
                    let mut s = base_state(&mut r, &names, dr % 2 == 1);
                    // two vectors of each type on top (lengths len and random), scalars from pools
                    let l2 = r.below(maxlen + 1);
                    s.bv.insert(0, vec_b(&mut r, l2));
                    s.bv.insert(0, vec_b(&mut r, len));
                    let l2 = r.below(maxlen + 1);
                    s.iv.insert(0, vec_i(&mut r, l2, vm));
                    s.iv.insert(0, vec_i(&mut r, len, vm));
                    let l2 = r.below(maxlen + 1);
                    s.fv.insert(0, vec_f(&mut r, l2, vm));
                    s.fv.insert(0, vec_f(&mut r, len, vm));
                    s.b.insert(0, r.bool());
                    for _ in 0..3 {
                        s.f.insert(0, fb(gen::float(&mut r, if name.ends_with("SINE") && dr % 2 == 0 { Vals::Small } else { vm })));
                    }
                    if name == "BOOLVECTOR.RAND" {
                        let sp = *r.pick(&[0.0f32, 0.01, 0.1, 0.25, 0.5, 0.75, 0.99, 1.0, -0.1, 1.1, f32::NAN, f32::INFINITY]);
                        s.f.insert(0, fb(sp));
                    }
                    if name == "FLOATVECTOR.RAND" && dr % 2 == 0 {
                        s.f.insert(0, fb(*r.pick(&[0.0f32, 1.0, -1.0, 2.5, f32::NAN, f32::INFINITY])));
                        s.f.insert(0, fb(gen::grid_float(&mut r)));
                    }
                    // integers: data below, then the operand on top
                    s.i.insert(0, gen::int(&mut r, vm));
                    s.i.insert(0, gen::int(&mut r, Vals::Small));
                    if name == "INTVECTOR.RAND" {
                        // min (3rd), max (2nd), size (top)
                        let a = gen::int(&mut r, Vals::Small);
                        let b = gen::int(&mut r, Vals::Small);
                        s.i.insert(0, a);
                        s.i.insert(0, b);
                    }
                    s.i.insert(0, *iv);
                    if name == "INTVECTOR.LOOP" {
                        s.e.insert(0, SItem::Instr("NOOP".into()));
                    }
                    let mut st = build_state(&s);
                    ctx.rec.case_marker(case, name);
                    ctx.rec.count("steps", 1);
                    let ic = if *iv == i32::MIN { "min".to_string() } else if *iv == i32::MAX { "max".to_string() } else { iv.to_string() };
                    ctx.rec.cover(&format!("{}|{}|{}", name, len, ic));
                    let ev = judged_step("C09", name, &mut st, &mut is, &cache, &mut ctx.rec, judge, &format!("len={} int_operand={}", len, iv));
                    if len == 3 && *iv == 1 && dr == 0 {
                        if let Some(p) = &ev.post {
                            ctx.rec.sample("vector", &format!("{} : {}  =>  {}", name, ev.pre.summary(), p.summary()));
                        }
                    }
                }
            }
        }
    }
    ctx.rec.checkpoint();
    // (4) beyond 2^24 elements: an element's index is no longer exactly representable in f32, a
    // counter kept in f32 stops counting. One vector of 2^24+64 elements per constructor (64 MiB),
    // checked element by element against the documented formula (own shard, not under fuzz/miri).
    case += 1;
    if ctx.mine(case) && !ctx.is_fuzz() && ctx.mode != "miri" {
        use pushr::push::state::PushState;
        let n: usize = (1 << 24) + 64;
        ctx.rec.case_marker(case, "FLOATVECTOR.SINE huge");
        let (amp, x, phi) = (100.0f32, 1.0f32 / 1024.0, 0.25f32);
        let mut st = PushState::new();
        st.int_stack.push(n as i32);
        st.float_stack.push(phi);
        st.float_stack.push(x);
        st.float_stack.push(amp);
        let o = crate::mon::step_named(&mut st, &mut is, &cache, "FLOATVECTOR.SINE");
        ctx.rec.count("steps", 1);
        ctx.rec.count("huge_vector_cases", 1);
        if let Some(p) = o.panic {
            ctx.rec.violation("C09", &format!("FLOATVECTOR.SINE|panic|{}", crate::mon::panic_sig(&p)), &format!("length {}: {}", n, p), "");
        } else {
            match st.float_vector_stack.get(0) {
                Some(v) if v.values.len() == n => {
                    let mut bad = None;
                    for (i, got) in v.values.iter().enumerate() {
                        let want = amp * (2.0 * std::f32::consts::PI * x * i as f32 + phi).sin();
                        if (got - want).abs() > 1e-3 * amp {
                            bad = Some((i, *got, want));
                            break;
                        }
                    }
                    ctx.rec.count("huge_vector_elements_checked", n as u64);
                    if let Some((i, got, want)) = bad {
                        ctx.rec.violation("C09", "FLOATVECTOR.SINE|mismatch", &format!("length {}: element {} is {} but A*sin(2*pi*x*i+phi) = {} (A=100, x=1/1024, phi=0.25)", n, i, got, want), "");
                    }
                }
                other => ctx.rec.violation("C09", "FLOATVECTOR.SINE|mismatch", &format!("length {} requested, got {:?} elements", n, other.map(|v| v.values.len())), ""),
            }
        }
        ctx.rec.cover("huge|FLOATVECTOR.SINE");
        drop(st);
        for name in ["FLOATVECTOR.ONES", "INTVECTOR.ZEROS", "BOOLVECTOR.ONES"] {
            let mut st = PushState::new();
            st.int_stack.push(n as i32);
            ctx.rec.case_marker(case, name);
            let o = crate::mon::step_named(&mut st, &mut is, &cache, name);
            ctx.rec.count("steps", 1);
            ctx.rec.count("huge_vector_cases", 1);
            let ok = match name {
                "FLOATVECTOR.ONES" => st.float_vector_stack.get(0).map(|v| v.values.len() == n && v.values.iter().all(|x| *x == 1.0)),
                "INTVECTOR.ZEROS" => st.int_vector_stack.get(0).map(|v| v.values.len() == n && v.values.iter().all(|x| *x == 0)),
                _ => st.bool_vector_stack.get(0).map(|v| v.values.len() == n && v.values.iter().all(|x| *x)),
            };
            if o.panic.is_some() || ok != Some(true) {
                ctx.rec.violation("C09", &format!("{}|mismatch", name), &format!("length {}: panic {:?}, all-elements check {:?}", n, o.panic, ok), "");
            }
            ctx.rec.cover(&format!("huge|{}", name));
        }
    }
    ctx.rec.checkpoint();
}
