//! C13 — random value generators and RAND instructions respect their documented bounds.
//! Predicate + statistical monitors (pushr's RNG is thread_rng and cannot be seeded): ranges,
//! lengths, TRUE-counts, rejection of invalid parameters (no vector, no crash, no hang), and
//! per-position reachability with an explicit false-alarm bound <= 1e-12 per check.

use crate::dmon::{judged_step, Judge};
use crate::mon::{guarded, new_iset, panic_sig, sorted_cache};
use crate::snap::*;
use crate::Ctx;
use pushr::push::random::CodeGenerator;
use pushr::push::state::PushState;

const SPARS: [f32; 19] = [0.0, 0.01, 0.1, 0.25, 0.5, 0.75, 0.99, 1.0, -0.1, 1.1, f32::NAN, f32::INFINITY, f32::NEG_INFINITY, 1.004, 1.0000001, -0.004, -1.0e-7, 0.004, 0.996];

fn valid_sp(s: f32) -> bool {
    s >= 0.0 && s <= 1.0
}

pub fn run(ctx: &mut Ctx) {
    let (mut is, _names) = new_iset();
    let cache = sorted_cache(&is);
    let judge = Judge { frame: true, reference: true };
    let mut case: u64 = 0;
    let draws = ctx.n(60, 1500);

    // ---- random_bool_vector -----------------------------------------------------------------
    let mut sizes: Vec<i32> = (0..=12).collect();
    sizes.extend([40, 100, -1, -5, i32::MIN, 1_000_000]);
    for size in sizes.iter() {
        for sp in SPARS.iter() {
            case += 1;
            if !ctx.mine(case) {
                continue;
            }
            // the million-bit vectors (a rejection loop that gives up, a counter that saturates: only long,
            // dense vectors show it) are drawn at sparsity 0.5 only, in the optimised build only
            let big = *size >= 100_000;
            if big && (*sp != 0.5 || ctx.profile != "release") {
                continue;
            }
            ctx.rec.case_marker(case, &format!("random_bool_vector({}, {})", size, sp));
            let valid = *size >= 0 && valid_sp(*sp);
            // number of bits the generator is documented to activate (two-decimal rounding)
            let n = *size as f64;
            let mut hits = vec![0u32; (*size).max(0) as usize];
            let mut with_active = 0u64;
            let mut kmin = usize::MAX;
            // draws for the reachability statistic: (1 - k/n)^D * n <= 1e-12
            let k_nominal = ((*sp as f64).min(1.0 - *sp as f64) * n).floor().max(0.0);
            let need = if valid && *sp <= 0.5 && k_nominal >= 1.0 && *size >= 2 {
                let q: f64 = 1.0 - k_nominal / n;
                if q <= 0.0 { 1 } else { ((27.631 + n.ln()) / -q.ln()).ceil() as usize }
            } else {
                0
            };
            let total = if big { ctx.n(400, 4000) } else { draws.max(need.min(ctx.n(6000, 60000))) };
            for _ in 0..total {
                ctx.rec.count("draws", 1);
                match guarded(|| CodeGenerator::random_bool_vector(*size, *sp)) {
                    Err(p) => {
                        ctx.rec.violation("C13", &format!("random_bool_vector|panic|{}", panic_sig(&p)), &format!("{} ; size {} sparsity {}", p, size, sp), "");
                        break;
                    }
                    Ok(None) => {
                        if valid {
                            ctx.rec.violation("C13", "random_bool_vector|none-for-valid-parameters", &format!("size {} sparsity {}", size, sp), "");
                            break;
                        }
                    }
                    Ok(Some(v)) => {
                        if !valid {
                            ctx.rec.violation("C13", "random_bool_vector|vector-for-invalid-parameters", &format!("size {} sparsity {} produced {:?}", size, sp, v.values), "");
                            break;
                        }
                        if v.values.len() != *size as usize {
                            ctx.rec.violation("C13", "random_bool_vector|wrong-length", &format!("size {} sparsity {} -> length {}", size, sp, v.values.len()), "");
                            break;
                        }
                        let ones = v.values.iter().filter(|b| **b).count();
                        if !crate::refm::true_count_ok(*size as usize, *sp, ones) {
                            ctx.rec.violation("C13", "random_bool_vector|true-count", &format!("size {} sparsity {} -> {} TRUE bits (expected about {})", size, sp, ones, *sp as f64 * n), "");
                            break;
                        }
                        if ones > 0 {
                            with_active += 1;
                            kmin = kmin.min(ones);
                            for (j, b) in v.values.iter().enumerate() {
                                if *b {
                                    hits[j] += 1;
                                }
                            }
                        }
                    }
                }
            }
            // reachability: judged only when enough draws were made for the false-alarm bound
            if need > 0 && total >= need && with_active as usize >= need && kmin as f64 >= k_nominal {
                ctx.rec.count("reachability_checks", 1);
                if let Some(j) = hits.iter().position(|h| *h == 0) {
                    ctx.rec.violation(
                        "C13",
                        "random_bool_vector|position-never-true",
                        &format!("size {} sparsity {}: position {} was never TRUE in {} draws with >= {} active bits (P(false alarm) <= 1e-12); hits per position {:?}", size, sp, j, with_active, kmin, hits),
                        "",
                    );
                }
                if *size == 10 && *sp == 0.25 {
                    ctx.rec.sample("reachability", &format!("size 10 sparsity 0.25: hits per position over {} draws: {:?}", with_active, hits));
                }
            }
            ctx.rec.cover(&format!("bv|{}|{}", size, sp));
        }
    }
    ctx.rec.checkpoint();

    // ---- random_int_vector / random_float_vector --------------------------------------------
    let pairs: [(i32, i32); 10] = [(0, 10), (-5, 5), (3, 3), (5, -5), (i32::MIN, i32::MAX), (i32::MAX - 1, i32::MAX), (i32::MIN, i32::MIN + 1), (0, 1), (7, 6), (-1, 0)];
    for size in [0, 1, 2, 5, 12, 100, -1, i32::MIN] {
        for (lo, hi) in pairs.iter() {
            case += 1;
            if !ctx.mine(case) {
                continue;
            }
            ctx.rec.case_marker(case, &format!("random_int_vector({}, {}, {})", size, lo, hi));
            let valid = size >= 0 && lo < hi;
            for _ in 0..draws {
                ctx.rec.count("draws", 1);
                match guarded(|| CodeGenerator::random_int_vector(size, *lo, *hi)) {
                    Err(p) => {
                        ctx.rec.violation("C13", &format!("random_int_vector|panic|{}", panic_sig(&p)), &format!("{} ; size {} min {} max {}", p, size, lo, hi), "");
                        break;
                    }
                    Ok(None) => {
                        if valid {
                            ctx.rec.violation("C13", "random_int_vector|none-for-valid-parameters", &format!("size {} min {} max {}", size, lo, hi), "");
                            break;
                        }
                    }
                    Ok(Some(v)) => {
                        if !valid || v.values.len() != size as usize || v.values.iter().any(|x| x < lo || x >= hi) {
                            ctx.rec.violation("C13", "random_int_vector|bounds", &format!("size {} min {} max {} -> {:?}", size, lo, hi, v.values), "");
                            break;
                        }
                    }
                }
            }
            ctx.rec.cover(&format!("iv|{}|{}|{}", size, lo, hi));
        }
    }
    let sds: [f32; 9] = [0.0, 1.0, 2.5, 1e30, -1.0, -0.0, f32::NAN, f32::INFINITY, f32::NEG_INFINITY];
    for size in [0, 1, 5, 100, -1, i32::MIN] {
        for sd in sds.iter() {
            for mean in [0.0f32, -3.5, 1e30, f32::NAN, f32::INFINITY] {
                case += 1;
                if !ctx.mine(case) {
                    continue;
                }
                ctx.rec.case_marker(case, &format!("random_float_vector({}, {}, {})", size, mean, sd));
                let valid = size >= 0 && *sd >= 0.0 && sd.is_finite();
                for _ in 0..draws / 3 + 1 {
                    ctx.rec.count("draws", 1);
                    match guarded(|| CodeGenerator::random_float_vector(size, mean, *sd)) {
                        Err(p) => {
                            ctx.rec.violation("C13", &format!("random_float_vector|panic|{}", panic_sig(&p)), &format!("{} ; size {} mean {} stddev {}", p, size, mean, sd), "");
                            break;
                        }
                        Ok(None) => {
                            if valid {
                                ctx.rec.violation("C13", "random_float_vector|none-for-valid-parameters", &format!("size {} mean {} stddev {}", size, mean, sd), "");
                                break;
                            }
                        }
                        Ok(Some(v)) => {
                            if !valid || v.values.len() != size as usize {
                                ctx.rec.violation("C13", "random_float_vector|invalid-accepted-or-wrong-length", &format!("size {} mean {} stddev {} -> length {}", size, mean, sd, v.values.len()), "");
                                break;
                            }
                            if *sd == 0.0 && mean.is_finite() && v.values.iter().any(|x| *x != mean) {
                                ctx.rec.violation("C13", "random_float_vector|zero-deviation", &format!("stddev 0 mean {} -> {:?}", mean, v.values), "");
                                break;
                            }
                        }
                    }
                }
                ctx.rec.cover(&format!("fv|{}|{}|{}", size, sd, mean));
            }
        }
    }
    ctx.rec.checkpoint();

    // ---- random_integer / random_float through the configuration ----------------------------
    // (incl. intervals narrower than, and not aligned with, the 0.001 printing grid: a value snapped to a grid leaves them)
    let fpairs: [(f32, f32); 13] = [(-1.0, 1.0), (0.0, 1e-30), (2.0, 2.0), (3.0, -3.0), (f32::MIN, f32::MAX), (f32::NEG_INFINITY, 0.0), (0.0, f32::INFINITY), (f32::NAN, 1.0), (1.0, 1.0000001), (0.0, 0.01), (1.0, 1.004), (-0.002, 0.002), (0.1234, 0.1239)];
    for (lo, hi) in pairs.iter() {
        for (flo, fhi) in fpairs.iter() {
            case += 1;
            if !ctx.mine(case) {
                continue;
            }
            ctx.rec.case_marker(case, &format!("INTEGER.RAND/FLOAT.RAND int[{},{}) float[{},{})", lo, hi, flo, fhi));
            for name in ["INTEGER.RAND", "FLOAT.RAND"] {
                for _ in 0..draws {
                    let mut st = PushState::new();
                    st.configuration.min_random_integer = *lo;
                    st.configuration.max_random_integer = *hi;
                    st.configuration.min_random_float = *flo;
                    st.configuration.max_random_float = *fhi;
                    st.int_stack.push(3);
                    st.float_stack.push(2.0);
                    // the D monitor's reference holds the bounds predicate and the "nothing when max <= min" rule
                    let ev = judged_step("C13", name, &mut st, &mut is, &cache, &mut ctx.rec, judge, "configured bounds");
                    ctx.rec.count("draws", 1);
                    if ev.post.is_none() {
                        break;
                    }
                }
                ctx.rec.set_add("instructions", name);
            }
            ctx.rec.cover(&format!("cfg|{}|{}|{}|{}", lo, hi, flo, fhi));
        }
    }
    // ---- vector RAND instructions (operand order as documented) and NAME.RANDBOUNDNAME ---------
    for size in [-1, 0, 1, 2, 7, 30] {
        for variant in 0..SPARS.len().max(12) {
            case += 1;
            if !ctx.mine(case) {
                continue;
            }
            for _ in 0..draws {
                for name in ["BOOLVECTOR.RAND", "INTVECTOR.RAND", "FLOATVECTOR.RAND", "NAME.RANDBOUNDNAME", "NAME.RAND", "BOOLEAN.RAND"] {
                    let mut st = PushState::new();
                    match name {
                        "BOOLVECTOR.RAND" => {
                            st.float_stack.push(SPARS[variant % SPARS.len()]);
                            st.int_stack.push(size);
                        }
                        "INTVECTOR.RAND" => {
                            let (lo, hi) = pairs[variant % pairs.len()];
                            st.int_stack.push(lo); // min (third)
                            st.int_stack.push(hi); // max (second)
                            st.int_stack.push(size); // size (top)
                        }
                        "FLOATVECTOR.RAND" => {
                            st.float_stack.push(sds[variant % sds.len()]); // stddev (second)
                            st.float_stack.push([0.0f32, 5.0, f32::NAN][variant % 3]); // mean (top)
                            st.int_stack.push(size);
                        }
                        "NAME.RANDBOUNDNAME" => {
                            // (bound names as programs can make them: plain, with blanks (NAME.CAT, CODE.PRINT), empty, non-ASCII)
                            let styles: [&[&str]; 4] = [&["bound0", "bound1", "bound2"], &["two words", "x y z", " lead"], &["", "tab\there"], &["é", "bound0", "a b"]];
                            // (the NAME stack may already hold one of the bound names, or an unrelated one)
                            if variant % 3 == 1 && variant % 4 > 0 {
                                st.name_stack.push(styles[(variant / 4) % 4][0].to_string());
                            } else if variant % 3 == 2 {
                                st.name_stack.push("unrelated".to_string());
                            }
                            for b in 0..(variant % 4) {
                                st.name_bindings.insert(styles[(variant / 4) % 4][b % styles[(variant / 4) % 4].len()].to_string(), SItem::Int(b as i32).to_item());
                            }
                        }
                        _ => {}
                    }
                    let ev = judged_step("C13", name, &mut st, &mut is, &cache, &mut ctx.rec, judge, &format!("size {} variant {}", size, variant));
                    ctx.rec.count("draws", 1);
                    ctx.rec.set_add("instructions", name);
                    if let (Some(p), true) = (&ev.post, variant == 3 && size == 7) {
                        ctx.rec.sample("rand-instruction", &format!("{} : {}  =>  {}", name, ev.pre.summary(), p.summary()));
                    }
                }
            }
            ctx.rec.cover(&format!("instr|{}|{}", size, variant));
        }
    }
    ctx.rec.checkpoint();
}
