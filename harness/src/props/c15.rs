//! C15 — a step's time and memory are bounded by the state, not by operand magnitude.
//! R monitor: counting allocator (bytes requested per step), process CPU clock with an
//! in-process watchdog (a step on a tiny state that burns seconds of CPU is a hang), allocation
//! cap + supervisor for aborts. One supervised step per case: every instruction that takes an
//! INTEGER or FLOAT operand, each operand position probed with extreme values; plus growth
//! programs run under the default limits (max_points_in_program must bound CODE/EXEC items).

use crate::alloc;
use crate::frame::frame;
use crate::mon::{guarded, new_iset, panic_sig, sorted_cache};
use crate::snap::*;
use crate::Ctx;
use pushr::push::interpreter::PushInterpreter;
use pushr::push::item::Item;
use std::sync::atomic::{AtomicU64, Ordering};

const INT_PROBES: [i32; 9] = [-i32::MAX, -1_000_000, -1, 0, 1, 1000, 1_000_000, 1_000_000_000, i32::MAX];
const INDEX_PROBES: [(usize, usize); 7] = [(0, 100_000), (0, 3_000_000), (0, 100_000_000), (0, i32::MAX as usize), (0, usize::MAX / 2), (3_000_000, 6_000_000), (i32::MAX as usize - 1, i32::MAX as usize)];
const IV_PROBES: [&[i32]; 6] = [&[1, 40_000_000], &[0, i32::MAX], &[i32::MIN, i32::MAX], &[i32::MAX], &[-40_000_000, 3, 40_000_000], &[1_000_000_000, 1_000_000_001]];
const FV_PROBES: [&[f32]; 4] = [&[1.0, 4.0e7], &[-1.0e30, 1.0e30], &[f32::MAX], &[0.0, f32::INFINITY]];
const FLOAT_PROBES: [f32; 6] = [1e30, -1e30, f32::INFINITY, f32::NEG_INFINITY, f32::NAN, 0.5];

fn iclass(v: i32) -> &'static str {
    if v < 0 {
        "negative"
    } else if v < 1000 {
        "small"
    } else {
        "positive"
    }
}
fn fclass(v: f32) -> &'static str {
    if v.is_nan() {
        "nan"
    } else if v.is_infinite() {
        "inf"
    } else if v.abs() >= 1e20 {
        "huge"
    } else {
        "small"
    }
}

/// process CPU time in microseconds
fn proc_cpu_us() -> u64 {
    let mut ts = libc::timespec { tv_sec: 0, tv_nsec: 0 };
    unsafe {
        libc::clock_gettime(libc::CLOCK_PROCESS_CPUTIME_ID, &mut ts);
    }
    ts.tv_sec as u64 * 1_000_000 + ts.tv_nsec as u64 / 1000
}

/// CPU time at which the current step started (0 = no step running)
static STEP_START_CPU: AtomicU64 = AtomicU64::new(0);

fn start_watchdog(limit_s: f64) {
    std::thread::spawn(move || loop {
        std::thread::sleep(std::time::Duration::from_millis(100));
        let s = STEP_START_CPU.load(Ordering::Relaxed);
        if s != 0 {
            let burned = proc_cpu_us().saturating_sub(s) as f64 / 1e6;
            if burned > limit_s {
                let msg = format!("HANG_DETECTED cpu_s={:.1}\n", burned);
                unsafe {
                    libc::write(2, msg.as_ptr() as *const libc::c_void, msg.len());
                    libc::_exit(77);
                }
            }
        }
    });
}

fn tiny_state() -> Snap {
    let mut s = Snap::empty();
    s.b = vec![true, false];
    s.n = vec!["a".into(), "b".into(), "c".into()];
    s.c = vec![SItem::List(vec![SItem::Int(1), SItem::Bool(true), SItem::Float(fb(0.5))]), SItem::Int(3), SItem::List(vec![])];
    s.e = vec![SItem::Instr("NOOP".into()), SItem::Int(4)];
    s.x = vec![(0, 2)];
    s.bv = vec![vec![true, false], vec![false, true]];
    s.iv = vec![vec![1, 2], vec![3, 4]];
    s.fv = vec![vec![fb(1.0), fb(2.0)], vec![fb(3.0), fb(4.0)]];
    s.inp = vec![(vec![1], vec![true, false])];
    let mut g = SGraph::default();
    g.nodes = vec![(1, 0), (2, 1)];
    g.edges = vec![(2, 1, fb(0.5))];
    s.g = vec![g.clone(), g];
    s.nb.insert("a".into(), SItem::Int(1));
    s
}

fn bound(pre: &Snap) -> u64 {
    let limits = 10 + pre.cfg.max_points_in_program.unsigned_abs() as u64 + pre.cfg.max_points_in_random_expressions.unsigned_abs() as u64 + pre.cfg.growth_cap as u64;
    (1 << 20) + 64 * pre.approx_bytes() as u64 + 64 * limits
}

fn steps(ctx: &mut Ctx) {
    let (mut is, names) = new_iset();
    let cache = sorted_cache(&is);
    let mut case: u64 = 0;
    let mut done_here: u64 = 0;
    for name in names.iter() {
        let fr = match frame(name) {
            Some(f) => f,
            None => continue,
        };
        let depth_of = |st: St| fr.needs.iter().chain(fr.pops.iter()).filter(|(s, _)| *s == st).map(|(_, n)| (*n).min(4)).max().unwrap_or(0);
        let (mut ni, mut nf) = (depth_of(St::Int), depth_of(St::Float));
        if ni == 0 && nf == 0 {
            // not documented to take a numeric operand: still probe the tops of both stacks, so
            // that an instruction that is (mis)bound to operand-sized work shows up
            ni = 1;
            nf = 1;
            ctx.rec.set_add("instructions_without_numeric_operands_probed", name);
        } else {
            ctx.rec.set_add("instructions", name);
        }
        // probes: (kind 0 = INTEGER, 1 = FLOAT, 2 = INDEX (current, destination) pair, position, value index)
        let mut probes: Vec<(u8, usize, usize)> = vec![];
        for p in 0..ni {
            for v in 0..INT_PROBES.len() {
                probes.push((0, p, v));
            }
        }
        for p in 0..nf {
            for v in 0..FLOAT_PROBES.len() {
                probes.push((1, p, v));
            }
        }
        // loop bounds live on the INDEX stack: an instruction that reads it is probed with mid-range and
        // extreme (current, destination) pairs too
        if depth_of(St::Index) > 0 {
            for v in 0..INDEX_PROBES.len() {
                probes.push((2, 0, v));
            }
        }
        // vector operands: the magnitude (and the SPREAD) of the elements is operand magnitude too
        if depth_of(St::IV) > 0 {
            for v in 0..IV_PROBES.len() {
                probes.push((3, 0, v));
            }
        }
        if depth_of(St::FV) > 0 {
            for v in 0..FV_PROBES.len() {
                probes.push((4, 0, v));
            }
        }
        for (kind, pos, vi) in probes {
            let isf = kind == 1;
            for pattern in 0..3 {
                case += 1;
                if !ctx.mine(case) {
                    continue;
                }
                done_here += 1;
                if done_here % 16 == 0 {
                    // counters must survive an abort of this worker
                    ctx.rec.checkpoint();
                }
                let mut s = tiny_state();
                // the other operands: small, and such that min < max / index < size style guards hold
                s.i = if pattern == 0 { vec![2, 2, 2, 2, 2] } else { vec![2, 5, 1, 1, 7] };
                s.f = if pattern == 0 { vec![fb(0.5), fb(1.0), fb(1.0), fb(2.0)] } else { vec![fb(1.0), fb(0.25), fb(0.0), fb(2.0)] };
                if pattern == 2 {
                    // degenerate operands: empty vectors, empty list, empty name on top
                    s.bv.insert(0, vec![]);
                    s.iv.insert(0, vec![]);
                    s.fv.insert(0, vec![]);
                    s.c.insert(0, SItem::List(vec![]));
                    s.e.insert(0, SItem::List(vec![]));
                    s.n.insert(0, String::new());
                    s.g.insert(0, SGraph::default());
                }
                let (cls, shown) = if kind == 3 {
                    s.iv[0] = IV_PROBES[vi].to_vec();
                    (format!("iv0:{}", if IV_PROBES[vi].len() > 1 { "spread" } else { "huge" }), format!("{:?}", IV_PROBES[vi]))
                } else if kind == 4 {
                    s.fv[0] = FV_PROBES[vi].iter().map(|f| fb(*f)).collect();
                    (format!("fv0:{}", if FV_PROBES[vi].len() > 1 { "spread" } else { "huge" }), format!("{:?}", FV_PROBES[vi]))
                } else if kind == 2 {
                    s.x[0] = INDEX_PROBES[vi];
                    (format!("x0:{}", if INDEX_PROBES[vi].1 > i32::MAX as usize { "beyond-i32" } else { "positive" }), format!("{:?}", INDEX_PROBES[vi]))
                } else if isf {
                    s.f[pos] = fb(FLOAT_PROBES[vi]);
                    (format!("f{}:{}", pos, fclass(FLOAT_PROBES[vi])), format!("{}", FLOAT_PROBES[vi]))
                } else {
                    s.i[pos] = INT_PROBES[vi];
                    (format!("i{}:{}", pos, iclass(INT_PROBES[vi])), format!("{}", INT_PROBES[vi]))
                };
                let mut st = build_state(&s);
                let pre = Snap::of(&st);
                let b = bound(&pre);
                // the marker carries the signature, so that an abort / hang of this very step can
                // be attributed by the supervisor
                ctx.rec.case_marker(case, &format!("{}|{} :: operand {} pattern {} state {}", name, cls, shown, pattern, pre.summary()));
                st.exec_stack.push(Item::instruction(name.clone()));
                let a0 = alloc::mark();
                let c0 = proc_cpu_us();
                STEP_START_CPU.store(c0.max(1), Ordering::Relaxed);
                let res = guarded(|| PushInterpreter::step(&mut st, &mut is, &cache));
                STEP_START_CPU.store(0, Ordering::Relaxed);
                let cpu_us = proc_cpu_us() - c0;
                let a1 = alloc::stats();
                let req = a1.requested - a0.requested;
                ctx.rec.count("steps", 1);
                ctx.rec.cover(&format!("{}|{}|p{}", name, cls, pattern));
                ctx.rec.max("max_bytes_requested_in_one_step", req);
                ctx.rec.max("max_step_cpu_us", cpu_us);
                if let Err(p) = res {
                    ctx.rec.violation("C15", &format!("{}|{}|panic|{}", name, cls, panic_sig(&p)), &format!("{} ; operand {} ; state {}", p, shown, pre.summary()), "");
                    continue;
                }
                if req > b {
                    ctx.rec.violation(
                        "C15",
                        &format!("{}|{}|mem", name, cls),
                        &format!("one step requested {} bytes on a state of ~{} bytes (bound {}) ; operand {} ; state {}", req, pre.approx_bytes(), b, shown, pre.summary()),
                        "",
                    );
                }
                if cpu_us > 100_000 {
                    ctx.rec.violation("C15", &format!("{}|{}|time", name, cls), &format!("one step burned {:.2} s CPU on a tiny state (normal cost: microseconds) ; operand {} ; state {}", cpu_us as f64 / 1e6, shown, pre.summary()), "");
                }
                drop(st);
                if case % 700 == 0 {
                    ctx.rec.sample("supervised-step", &format!("{} with {} = {} : {} bytes requested, {} us CPU (bound {} bytes)", name, cls, shown, req, cpu_us, b));
                }
            }
        }
    }
}

fn programs(ctx: &mut Ctx) {
    let (mut is, _names) = new_iset();
    let i = |n: &str| SItem::Instr(n.to_string());
    let y = |body: Vec<SItem>| vec![i("EXEC.Y"), SItem::List(body)];
    let families: Vec<(&str, Vec<SItem>)> = vec![
        ("CODE.DUP+CODE.LIST", [vec![i("CODE.QUOTE"), SItem::List(vec![SItem::Int(1)])], y(vec![i("CODE.DUP"), i("CODE.LIST")])].concat()),
        ("CODE.DUP+CODE.APPEND", [vec![i("CODE.QUOTE"), SItem::List(vec![SItem::Int(1)])], y(vec![i("CODE.DUP"), i("CODE.APPEND")])].concat()),
        ("CODE.DUP+CODE.CONS", [vec![i("CODE.QUOTE"), SItem::List(vec![SItem::Int(1)])], y(vec![i("CODE.DUP"), i("CODE.CONS")])].concat()),
        ("CODE.CONS-linear", [vec![i("CODE.QUOTE"), SItem::List(vec![])], y(vec![i("CODE.QUOTE"), SItem::Int(7), i("CODE.SWAP"), i("CODE.CONS")])].concat()),
        ("EXEC.S", vec![i("EXEC.Y"), SItem::List(vec![i("EXEC.S"), i("NOOP"), i("NOOP"), i("NOOP")])]),
        ("EXEC.DUP-nest", y(vec![i("CODE.QUOTE"), i("NOOP"), i("CODE.DUP"), i("CODE.LIST"), i("CODE.DUP"), i("CODE.LIST"), i("CODE.POP")])),
        ("NAME.DUP+NAME.CAT", [vec![SItem::Name("abcdefgh".into())], y(vec![i("NAME.DUP"), i("NAME.CAT")])].concat()),
        ("INTVECTOR.APPEND-linear", [vec![i("INTVECTOR.EMPTY")], y(vec![SItem::Int(1), i("INTVECTOR.APPEND")])].concat()),
        ("INTVECTOR.DUP-linear", [vec![SItem::IV(vec![1, 2, 3])], y(vec![i("INTVECTOR.DUP")])].concat()),
        ("LIST.ADD-nesting", [vec![i("CODE.QUOTE"), SItem::Int(1)], y(vec![SItem::IV(vec![3, 3]), i("CODE.DUP"), i("LIST.ADD")])].concat()),
    ];
    for (k, (fam, prog)) in families.iter().enumerate() {
        if !ctx.mine(5_000_000 + k as u64) {
            continue;
        }
        ctx.rec.checkpoint();
        let mut s = Snap::empty();
        s.e = vec![SItem::List(prog.clone())];
        let mut st = build_state(&s);
        let maxp = st.configuration.max_points_in_program as usize;
        ctx.rec.case_marker(5_000_000 + k as u64, &format!("program:{}|default-limits :: {}", fam, SItem::List(prog.clone())));
        // (no per-step watchdog here: a whole run legitimately takes seconds; a hang inside one of
        // its steps is caught by the supervisor's stall rule)
        let a0 = alloc::mark();
        let res = guarded(|| PushInterpreter::run(&mut st, &mut is));
        let a1 = alloc::stats();
        ctx.rec.count("programs", 1);
        ctx.rec.count("steps", 1);
        ctx.rec.cover(&format!("program|{}", fam));
        match res {
            Err(p) => ctx.rec.violation("C15", &format!("program:{}|panic|{}", fam, panic_sig(&p)), &p, ""),
            Ok(outcome) => {
                let fin = Snap::of(&st);
                let big = fin.c.iter().chain(fin.e.iter()).map(|x| x.points()).max().unwrap_or(0);
                ctx.rec.max("max_code_points_after_default_run", big as u64);
                ctx.rec.max("max_peak_bytes_in_default_run", (a1.peak.saturating_sub(a0.live)) as u64);
                if big > maxp {
                    ctx.rec.violation(
                        "C15",
                        &format!("program:{}|code-growth", fam),
                        &format!("after a run under the default limits ({:?}) an item on CODE/EXEC has {} points; max_points_in_program is {}", outcome, big, maxp),
                        "",
                    );
                }
                let name_len = fin.n.iter().map(|x| x.len()).max().unwrap_or(0);
                if a1.peak.saturating_sub(a0.live) > (256 << 20) || name_len > (16 << 20) {
                    ctx.rec.violation("C15", &format!("program:{}|mem", fam), &format!("a run under the default limits held {} bytes live at its peak", a1.peak.saturating_sub(a0.live)), "");
                }
                ctx.rec.sample("growth-program", &format!("{} : {:?}, largest CODE/EXEC item {} points, peak {} bytes", fam, outcome, big, a1.peak.saturating_sub(a0.live)));
            }
        }
        let _ = guarded(move || drop(st));
    }
}

/// Repeated application: every registered instruction 60 times in a row on ONE evolving small
/// state (small operands topped up between the steps). What a single step cannot show - capacity
/// that doubles with every call, history that accumulates - shows as one step's allocation or CPU time
/// out of proportion to the state it ran on.
fn repeated(ctx: &mut Ctx) {
    let (mut is, names) = new_iset();
    let cache = sorted_cache(&is);
    let mut case: u64 = 3_000_000;
    for name in names.iter() {
        if name.contains("RAND") || name.ends_with(".ONES") || name.ends_with(".ZEROS") || name == "FLOATVECTOR.SINE" || name.starts_with("LIST.NEIGHBOR") {
            continue; // operand-sized by documentation (known findings of the single-step probes)
        }
        case += 1;
        if !ctx.mine(case) {
            continue;
        }
        let s = tiny_state();
        let mut st = build_state(&s);
        for rep in 0..60u64 {
            // top up small operands so that the instruction keeps firing
            while st.int_stack.size() < 4 {
                st.int_stack.push(1 + (rep % 3) as i32);
            }
            while st.float_stack.size() < 4 {
                st.float_stack.push(0.5);
            }
            if st.bool_stack.size() < 2 {
                st.bool_stack.push(rep % 2 == 0);
            }
            if st.name_stack.size() < 3 {
                st.name_stack.push(format!("n{}", rep % 4));
            }
            if st.exec_stack.size() < 2 {
                st.exec_stack.push(Item::int(4));
            }
            if st.code_stack.size() < 2 {
                st.code_stack.push(Item::list(vec![Item::int(1), Item::bool(true)]));
            }
            let pre = Snap::of(&st);
            if pre.approx_bytes() > (4 << 20) {
                break; // the state itself has grown large (legitimately, e.g. by doubling): stop here
            }
            let b = bound(&pre);
            ctx.rec.case_marker(case, &format!("{}|repeated :: application {} state {}", name, rep, pre.summary().chars().take(300).collect::<String>()));
            st.exec_stack.push(Item::instruction(name.clone()));
            let a0 = alloc::mark();
            let c0 = proc_cpu_us();
            STEP_START_CPU.store(c0.max(1), Ordering::Relaxed);
            let res = guarded(|| PushInterpreter::step(&mut st, &mut is, &cache));
            STEP_START_CPU.store(0, Ordering::Relaxed);
            let cpu_us = proc_cpu_us() - c0;
            let req = alloc::stats().requested - a0.requested;
            ctx.rec.count("steps", 1);
            ctx.rec.count("repeated_application_steps", 1);
            if res.is_err() {
                break; // crashes are C01's business
            }
            if req > b {
                ctx.rec.violation("C15", &format!("{}|repeated|mem", name), &format!("application {} of {} requested {} bytes on a state of ~{} bytes (bound {}) ; state {}", rep, name, req, pre.approx_bytes(), b, pre.summary().chars().take(400).collect::<String>()), "");
                break;
            }
            if cpu_us > 100_000 {
                ctx.rec.violation("C15", &format!("{}|repeated|time", name), &format!("application {} of {} burned {:.2} s CPU on a state of ~{} bytes", rep, name, cpu_us as f64 / 1e6, pre.approx_bytes()), "");
                break;
            }
        }
        ctx.rec.cover(&format!("repeated|{}", name));
    }
}

/// Node ids are handed out by the process, not chosen by a caller: two nodes of ONE graph can carry
/// ids tens of millions apart when other graphs were built in between. Every GRAPH.* instruction is
/// probed on such a graph (work or memory proportional to the id range is operand-magnitude work).
fn far_apart_ids(ctx: &mut Ctx) {
    if ctx.is_fuzz() || ctx.profile != "release" {
        return;
    }
    let case = 4_000_000u64;
    if !ctx.mine(case) {
        return;
    }
    use pushr::push::graph::{Graph, Node};
    let (mut is, names) = new_iset();
    let cache = sorted_cache(&is);
    let mut g = Graph::new();
    let a = g.add_node(1);
    for _ in 0..12_000_000u32 {
        std::hint::black_box(Node::new(0));
    }
    let b = g.add_node(2);
    g.add_edge(a, b, 0.5);
    g.add_edge(b, a, 1.5);
    ctx.rec.note("far_apart_node_ids", &format!("{} and {}", a, b));
    for name in names.iter().filter(|n| n.starts_with("GRAPH.")) {
        for variant in 0..2 {
            let mut st = build_state(&tiny_state());
            st.graph_stack.flush();
            st.graph_stack.push(g.clone());
            st.graph_stack.push(g.clone());
            st.int_stack.flush();
            for v in if variant == 0 { [a as i32, b as i32, a as i32, 1] } else { [1, 0, b as i32, a as i32] } {
                st.int_stack.push(v);
            }
            st.int_vector_stack.push(pushr::push::vector::IntVector::new(vec![1, 2]));
            let pre = Snap::of(&st);
            let bnd = bound(&pre);
            ctx.rec.case_marker(case, &format!("{}|ids:far-apart :: graph with node ids {} and {}", name, a, b));
            st.exec_stack.push(Item::instruction(name.clone()));
            let a0 = alloc::mark();
            let c0 = proc_cpu_us();
            STEP_START_CPU.store(c0.max(1), Ordering::Relaxed);
            let res = guarded(|| PushInterpreter::step(&mut st, &mut is, &cache));
            STEP_START_CPU.store(0, Ordering::Relaxed);
            let cpu_us = proc_cpu_us() - c0;
            let req = alloc::stats().requested - a0.requested;
            ctx.rec.count("steps", 1);
            ctx.rec.count("far_apart_id_steps", 1);
            if res.is_err() {
                continue;
            }
            if req > bnd {
                ctx.rec.violation("C15", &format!("{}|ids:far-apart|mem", name), &format!("one step requested {} bytes on a two-node graph whose ids are {} and {} (bound {})", req, a, b, bnd), "");
            }
            if cpu_us > 100_000 {
                ctx.rec.violation("C15", &format!("{}|ids:far-apart|time", name), &format!("one step burned {:.2} s CPU on a two-node graph whose ids are {} and {}", cpu_us as f64 / 1e6, a, b), "");
            }
            ctx.rec.cover(&format!("far|{}|{}", name, variant));
        }
    }
}

pub fn run(ctx: &mut Ctx) {
    start_watchdog(if ctx.quick() { 3.0 } else { 10.0 });
    far_apart_ids(ctx);
    ctx.rec.checkpoint();
    steps(ctx);
    ctx.rec.checkpoint();
    repeated(ctx);
    ctx.rec.checkpoint();
    programs(ctx);
    ctx.rec.checkpoint();
}
