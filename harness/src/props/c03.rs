//! C03 — the parser accepts every string and builds exactly the tree the text describes.
//! (a) exhaustive token sequences over a small hostile alphabet, (b) random hostile strings,
//! (c) random balanced token trees rendered with random whitespace and compared structurally.

use crate::gen::{self, StateOpts, Vals};
use crate::mon::{guarded, new_iset, panic_sig};
use crate::rng::Rng;
use crate::snap::*;
use crate::Ctx;
use pushr::push::parser::PushParser;

const ALPHABET: [&str; 8] = ["(", ")", "1", "x", "INT[1,2]", "INT[", "BOOL[q]", "FLOAT[]"];

/// Token classification by the documented cascade. None = malformed vector literal (dropped).
/// Some(Err(kind)) = vector literal with an EMPTY payload: dropped or empty vector (not judged).
#[derive(Clone, Debug, PartialEq)]
enum Tok {
    Item(SItem),
    Dropped,
    EmptyVec(u8),
}

fn classify(tok: &str, instr: &[String]) -> Tok {
    let vec_kind = if tok.starts_with("INT[") {
        Some((1u8, 4usize))
    } else if tok.starts_with("FLOAT[") {
        Some((2, 6))
    } else if tok.starts_with("BOOL[") {
        Some((0, 5))
    } else {
        None
    };
    if let Some((kind, plen)) = vec_kind {
        if !tok.ends_with(']') || tok.len() < plen + 1 {
            return Tok::Dropped;
        }
        let payload = &tok[plen..tok.len() - 1];
        if payload.is_empty() {
            return Tok::EmptyVec(kind);
        }
        match kind {
            0 => {
                let mut v = vec![];
                for el in payload.split(',') {
                    match el {
                        "1" | "true" => v.push(true),
                        "0" | "false" => v.push(false),
                        _ => return Tok::Dropped,
                    }
                }
                Tok::Item(SItem::BV(v))
            }
            1 => {
                let mut v = vec![];
                for el in payload.split(',') {
                    match el.parse::<i32>() {
                        Ok(x) => v.push(x),
                        Err(_) => return Tok::Dropped,
                    }
                }
                Tok::Item(SItem::IV(v))
            }
            _ => {
                let mut v = vec![];
                for el in payload.split(',') {
                    match el.parse::<f32>() {
                        Ok(x) => v.push(fb(x)),
                        Err(_) => return Tok::Dropped,
                    }
                }
                Tok::Item(SItem::FV(v))
            }
        }
    } else if instr.iter().any(|n| n == tok) {
        Tok::Item(SItem::Instr(tok.to_string()))
    } else if let Ok(i) = tok.parse::<i32>() {
        Tok::Item(SItem::Int(i))
    } else if let Ok(f) = tok.parse::<f32>() {
        Tok::Item(SItem::Float(fb(f)))
    } else if tok == "TRUE" {
        Tok::Item(SItem::Bool(true))
    } else if tok == "FALSE" {
        Tok::Item(SItem::Bool(false))
    } else {
        Tok::Item(SItem::Name(tok.to_string()))
    }
}

/// Expected forest for a BALANCED token sequence (None if not balanced). `keep_empty` decides
/// the don't-care: empty-payload vector literals kept as empty vectors or dropped.
fn expected_forest(tokens: &[&str], instr: &[String], keep_empty: bool) -> Option<Vec<SItem>> {
    let mut stack: Vec<Vec<SItem>> = vec![vec![]];
    for t in tokens {
        if *t == "(" {
            stack.push(vec![]);
        } else if *t == ")" {
            if stack.len() < 2 {
                return None;
            }
            let l = stack.pop().unwrap();
            stack.last_mut().unwrap().push(SItem::List(l));
        } else {
            match classify(t, instr) {
                Tok::Item(i) => stack.last_mut().unwrap().push(i),
                Tok::Dropped => {}
                Tok::EmptyVec(k) => {
                    if keep_empty {
                        stack.last_mut().unwrap().push(match k {
                            0 => SItem::BV(vec![]),
                            1 => SItem::IV(vec![]),
                            _ => SItem::FV(vec![]),
                        })
                    }
                }
            }
        }
    }
    if stack.len() != 1 {
        return None;
    }
    stack.pop()
}

struct ParseObs {
    panic: Option<String>,
    exec: Vec<SItem>,
    others_changed: Option<String>,
}

fn parse_observed(text: &str, base: &Snap, is: &pushr::push::instructions::InstructionSet) -> ParseObs {
    let mut st = build_state(base);
    let pre = Snap::of(&st);
    let r = guarded(|| PushParser::parse_program(&mut st, is, text));
    match r {
        Err(p) => ParseObs { panic: Some(p), exec: vec![], others_changed: None },
        Ok(()) => {
            let post = Snap::of(&st);
            let changed: Vec<St> = pre.diff_comps(&post).into_iter().filter(|c| *c != St::Exec).collect();
            ParseObs { panic: None, exec: post.e, others_changed: if changed.is_empty() { None } else { Some(format!("{:?}", changed)) } }
        }
    }
}

fn shape_class(tokens: &[&str]) -> String {
    tokens
        .iter()
        .map(|t| match *t {
            "(" => "(",
            ")" => ")",
            x if x.starts_with("INT[") || x.starts_with("FLOAT[") || x.starts_with("BOOL[") => "V",
            _ => "a",
        })
        .collect::<Vec<_>>()
        .join("")
}

fn judge(ctx: &mut Ctx, text: &str, tokens: Option<&[&str]>, base: &Snap, is: &pushr::push::instructions::InstructionSet, instr: &[String], what: &str) {
    let o = parse_observed(text, base, is);
    ctx.rec.count("strings", 1);
    let shown: String = text.chars().take(300).collect();
    if let Some(p) = o.panic {
        ctx.rec.violation("C03", &format!("parse|panic|{}", panic_sig(&p)), &format!("parse_program panicked: {} ; input ({}): {:?}", p, what, shown), "");
        return;
    }
    if let Some(c) = o.others_changed {
        ctx.rec.violation("C03", "parse|touched-other-stack", &format!("parsing changed {} ; input: {:?}", c, shown), "");
    }
    if let Some(toks) = tokens {
        if !base.e.is_empty() {
            return;
        }
        let e1 = expected_forest(toks, instr, false);
        let e2 = expected_forest(toks, instr, true);
        if let (Some(e1), Some(e2)) = (e1, e2) {
            ctx.rec.count("trees_compared", 1);
            if o.exec != e1 && o.exec != e2 {
                let show = |v: &Vec<SItem>| v.iter().map(|x| x.to_string()).collect::<Vec<_>>().join(" ");
                // classify the disagreement for a stable signature
                let class = if toks.iter().any(|t| matches!(classify(t, instr), Tok::Dropped)) { "malformed-literal" } else { "tree" };
                ctx.rec.violation("C03", &format!("parse|{}-mismatch", class), &format!("input {:?}: expected EXEC (top first) [{}] got [{}]", shown, show(&e1), show(&o.exec)), "");
            }
        }
    }
}

fn random_token(r: &mut Rng, instr: &[String]) -> String {
    match r.below(18) {
        0 => r.pick(&["2147483647", "-2147483648", "2147483648", "-0", "+7", "007", "1_000"]).to_string(),
        1 => r.pick(&["NaN", "inf", "-inf", "1e39", "-0.0", "1.5", ".5", "5.", "1e-50", "infinity", "nan", "0x10"]).to_string(),
        2 => r.pick(&["TRUE", "FALSE", "true", "False"]).to_string(),
        3 | 4 => r.pick(instr).clone(),
        5 => format!("INT[{}]", (0..r.below(4)).map(|_| gen::int(r, Vals::Mixed).to_string()).collect::<Vec<_>>().join(",")),
        6 => format!("FLOAT[{}]", (0..r.below(4)).map(|_| format!("{:?}", gen::grid_float(r))).collect::<Vec<_>>().join(",")),
        7 => format!("BOOL[{}]", (0..r.below(4)).map(|_| *r.pick(&["1", "0", "true", "false"])).collect::<Vec<_>>().join(",")),
        8 => r
            .pick(&[
                "INT[", "FLOAT[", "BOOL[", "INT[]", "INT[1,2", "INT[1,2x", "INT[1,,2]", "INT[a]", "FLOAT[1.0,x]", "BOOL[2]", "BOOL[1,0", "INT[1]]", "INT[1,2]x", "FLOAT[NaN]", "INT[1,é", "BOOL[é", "FLOAT[é]", "INT[€", "INT[1,2𝄞",
                "BOOL[1,0é", "INT]", "INT[[1]",
            ])
            .to_string(),
        9 => r.pick(&["x", "foo", "a.b", "CODE.", ".DUP", "integer.+", "(x", "x)", "()", "((", "é", "名前", "a\u{0301}", "😀", "\u{feff}x", "\u{feff}", "\u{200b}y", "z\u{200d}", "\u{ad}q", "\u{2060}w"]).to_string(),
        10 => {
            let n = 1 + r.below(12);
            (0..n).map(|_| char::from_u32(33 + r.below(94) as u32).unwrap()).filter(|c| *c != '(' && *c != ')').collect::<String>() + "z"
        }
        13 => {
            // a VALID vector literal with ONE edit (a character inserted, deleted, doubled or replaced,
            // most often a separator or a bracket, anywhere including both ends): almost always
            // malformed, and then to be dropped
            let mut lit: Vec<char> = match r.below(3) {
                0 => format!("INT[{}]", (0..1 + r.below(3)).map(|_| gen::int(r, Vals::Small).to_string()).collect::<Vec<_>>().join(",")),
                1 => format!("FLOAT[{}]", (0..1 + r.below(3)).map(|_| format!("{:?}", gen::grid_float(r))).collect::<Vec<_>>().join(",")),
                _ => format!("BOOL[{}]", (0..1 + r.below(3)).map(|_| *r.pick(&["1", "0", "true", "false"])).collect::<Vec<_>>().join(",")),
            }
            .chars()
            .collect();
            let c = *r.pick(&[',', ',', ',', '[', ']', ' ', '-', '.', 'x', '1']);
            // positions biased to the ends and to the separators
            let pos = match r.below(4) {
                0 => lit.len() - 1,
                1 => lit.len(),
                2 => lit.iter().position(|x| *x == '[').unwrap_or(0) + 1,
                _ => r.below(lit.len() + 1),
            };
            match r.below(4) {
                0 | 1 => lit.insert(pos.min(lit.len()), c),
                2 => {
                    if pos < lit.len() {
                        lit.remove(pos);
                    }
                }
                _ => {
                    if pos < lit.len() {
                        lit[pos] = c;
                    }
                }
            }
            lit.into_iter().filter(|x| !x.is_whitespace()).collect()
        }
        12 => {
            // decimal literals just beside the MIDPOINT of two neighbouring f32 values, written with 25-40
            // digits: the correctly rounded f32 (what from_str gives) differs from a value rounded twice
            // (through f64). The midpoint of x and its successor is exact in f64 and is printed exactly.
            let x = f32::from_bits(*r.pick(&[0x4b800000u32, 0x4b800001, 0x4c000000, 0x3f800000, 0x3f800001, 0x41200000, 0x7f000000, 0x00800000, 0x3dcccccd]) + r.below(4) as u32);
            let y = f32::from_bits(x.to_bits() + 1);
            let mid = (x as f64 + y as f64) / 2.0;
            let exact = format!("{:.60}", mid);
            let exact = exact.trim_end_matches('0').to_string();
            let exact = if exact.ends_with('.') { format!("{}0", exact) } else { exact };
            match r.below(3) {
                0 => exact,                                   // the tie itself (round half to even)
                1 => format!("{}{}1", exact, "0".repeat(r.below(12))), // a hair above the midpoint
                _ => {
                    // a hair below: decrement the last digit and append nines
                    let mut cs: Vec<char> = exact.chars().collect();
                    let mut k = cs.len() - 1;
                    while k > 0 && (cs[k] == '0' || cs[k] == '.') {
                        k -= 1;
                    }
                    if cs[k].is_ascii_digit() && cs[k] != '0' {
                        cs[k] = ((cs[k] as u8) - 1) as char;
                        let mut t: String = cs.into_iter().collect();
                        t.push_str(&"9".repeat(6 + r.below(12)));
                        t
                    } else {
                        exact
                    }
                }
            }
        }
        11 => {
            // LONG spellings of numbers (heavy-tailed token length): leading zeros, trailing fraction
            // zeros, long exponents, digit strings beyond every integer type; well formed for
            // Rust's from_str and therefore numbers, whatever their length
            let pad = "0".repeat(match r.below(4) {
                0 => r.below(8),
                1 => 20 + r.below(60),
                2 => gen::depth_tail(r),
                _ => 1,
            });
            match r.below(6) {
                0 => format!("{}{}", pad, r.below(1000)),
                1 => format!("-{}{}", pad, r.below(1000)),
                2 => format!("0.5{}", pad),
                3 => format!("{}1.25", pad),
                4 => format!("1{}", pad),
                _ => format!("1e{}2", pad),
            }
        }
        _ => gen::int(r, Vals::Small).to_string(),
    }
}

fn random_tree_tokens(r: &mut Rng, depth: usize, budget: &mut usize, instr: &[String], out: &mut Vec<String>) {
    while *budget > 0 && !r.chance(1, 6) {
        *budget -= 1;
        if depth > 0 && r.chance(1, 4) {
            out.push("(".into());
            random_tree_tokens(r, depth - 1, budget, instr, out);
            out.push(")".into());
        } else {
            out.push(random_token(r, instr));
        }
    }
}

const WS: [&str; 8] = [" ", "  ", "\t", "\n", "\r\n", "\u{00a0}", "\u{2003}", " \n\t "];

pub fn run(ctx: &mut Ctx) {
    let (mut is, mut names) = new_iset();
    // instructions registered by the embedding program may be spelled like numbers or booleans: the
    // documented order asks the registry FIRST
    for n in ["INF", "NaN", "1E3", "42", "TRUE", "-7", "0.5"] {
        is.add(n.to_string(), pushr::push::instructions::Instruction::new(|_s: &mut pushr::push::state::PushState, _c: &pushr::push::instructions::InstructionCache| {}));
        names.push(n.to_string());
    }
    names.sort();
    let is = is;
    let empty = Snap::empty();
    let mut case: u64 = 0;

    // (a) exhaustive
    let maxlen = ctx.n(5, 7);
    let mut total: u64 = 0;
    let lens = if ctx.is_fuzz() { 0..=0 } else { 0..=maxlen };
    for len in lens {
        let n = 8u64.pow(len as u32);
        for code in 0..n {
            case += 1;
            total += 1;
            if !ctx.mine(case) {
                continue;
            }
            let mut toks: Vec<&str> = Vec::with_capacity(len);
            let mut c = code;
            for _ in 0..len {
                toks.push(ALPHABET[(c % 8) as usize]);
                c /= 8;
            }
            let text = toks.join(" ");
            ctx.rec.case_marker_throttled(case, "exhaustive token sequence", 64);
            judge(ctx, &text, Some(&toks), &empty, &is, &names, "exhaustive");
            ctx.rec.cover(&format!("shape|{}", shape_class(&toks)));
        }
    }
    ctx.rec.note("exhaustive_space", &total.to_string());

    // (a') fuzz mode only: the decision tape itself, read as text (lossy UTF-8), tokenised the way the
    // documentation says (whitespace separated) and compared structurally when it is balanced
    if ctx.is_fuzz() {
        if let Some(raw) = crate::rng::tape_bytes() {
            let text = String::from_utf8_lossy(&raw).to_string();
            let toks: Vec<&str> = text.split_whitespace().collect();
            judge(ctx, &text, Some(&toks), &empty, &is, &names, "tape-as-text");
            // the same tokens REPAIRED into a balanced program (unmatched ")" dropped, missing ones
            // appended): every tape becomes a structural comparison, and nesting depth is rewarded
            let mut rep: Vec<&str> = Vec::with_capacity(toks.len() + 8);
            let mut depth = 0usize;
            for t in toks.iter() {
                if *t == ")" {
                    if depth == 0 {
                        continue;
                    }
                    depth -= 1;
                } else if *t == "(" {
                    depth += 1;
                }
                rep.push(t);
            }
            for _ in 0..depth {
                rep.push(")");
            }
            let rtext = rep.join(" ");
            judge(ctx, &rtext, Some(&rep), &empty, &is, &names, "tape-as-text-repaired");
            ctx.rec.count("tape_texts", 2);
        }
        case = 0;
    }

    // (b) hostile random strings
    let nb = ctx.n(60000, 2000000);
    for k in 0..nb as u64 {
        case += 1;
        if !ctx.mine(case) {
            continue;
        }
        let mut r = Rng::derive(ctx.seed, &[3, 1, k]);
        let base = if k % 4 == 0 { gen::snap(&mut r, &StateOpts::rich(Vals::Mixed), &names) } else { empty.clone() };
        let text = match r.below(5) {
            0 => {
                // token soup with random separators and unbalanced parens
                let n = r.below(12);
                let mut s = String::new();
                for _ in 0..n {
                    s.push_str(&match r.below(4) {
                        0 => "(".to_string(),
                        1 => ")".to_string(),
                        _ => random_token(&mut r, &names),
                    });
                    s.push_str(*r.pick(&WS[..]));
                }
                s
            }
            1 => {
                // raw random UTF-8
                let n = r.below(40);
                (0..n)
                    .map(|_| match r.below(6) {
                        0 => ' ',
                        1 => *r.pick(&['(', ')', '[', ']', ',', 'I', 'N', 'T']),
                        2 => char::from_u32(0x80 + r.below(0x700) as u32).unwrap_or('x'),
                        3 => char::from_u32(0x4e00 + r.below(0x500) as u32).unwrap_or('x'),
                        4 => char::from_u32(0x1f600 + r.below(0x40) as u32).unwrap_or('x'),
                        _ => char::from_u32(32 + r.below(95) as u32).unwrap(),
                    })
                    .collect()
            }
            2 => {
                // dangerous prefix + arbitrary tail
                let pre = *r.pick(&["INT[", "FLOAT[", "BOOL["]);
                let n = r.below(6);
                let tail: String = (0..n)
                    .map(|_| match r.below(5) {
                        0 => 'é',
                        1 => '€',
                        2 => '𝄞',
                        3 => ',',
                        _ => char::from_u32(48 + r.below(10) as u32).unwrap(),
                    })
                    .collect();
                format!("{} {}{} {}", random_token(&mut r, &names), pre, tail, random_token(&mut r, &names))
            }
            3 => {
                // a very long token / very deep nesting
                if r.bool() {
                    let n = 1000 + r.below(ctx.n(10000, 200000));
                    format!("( {} 1 )", "a".repeat(n))
                } else {
                    let d = 1 + r.below(ctx.n(300, 3000));
                    format!("{} 1 {}", "( ".repeat(d), ") ".repeat(r.below(d + 3)))
                }
            }
            _ => {
                let n = r.below(8);
                (0..n).map(|_| r.pick(&[")", ") )", "(", "x", ")x", "INT[", "1"]).to_string()).collect::<Vec<_>>().join(" ")
            }
        };
        ctx.rec.case_marker_throttled(case, "hostile random string", 16);
        judge(ctx, &text, None, &base, &is, &names, "random");
        ctx.rec.cover(&format!("rand|{}|{}|{}", text.len().min(50) / 5, text.matches('(').count().min(6), text.is_ascii()));
        if k % 3000 == 0 {
            ctx.rec.sample("hostile-string", &format!("{:?}", text.chars().take(160).collect::<String>()));
        }
    }

    // (c) balanced trees with random whitespace
    let nc = ctx.n(60000, 2000000);
    for k in 0..nc as u64 {
        case += 1;
        if !ctx.mine(case) {
            continue;
        }
        let mut r = Rng::derive(ctx.seed, &[3, 2, k]);
        let mut toks: Vec<String> = vec![];
        let mut budget = 1 + r.below(30);
        let depth = r.below(6);
        random_tree_tokens(&mut r, depth, &mut budget, &names, &mut toks);
        // one case in 24: the tree sits inside very deep nesting, siblings are left behind on the
        // way out (a level opened or closed wrongly moves them)
        if k % 24 == 5 {
            let d = gen::depth_tail(&mut r);
            let mut deep: Vec<String> = (0..d).map(|_| "(".to_string()).collect();
            deep.extend(toks.drain(..));
            for level in 0..d {
                deep.push(")".to_string());
                if r.chance(1, 6) || level + 1 == d {
                    deep.push(format!("{}", level));
                }
            }
            toks = deep;
        }
        let mut text = String::new();
        if r.bool() {
            text.push_str(*r.pick(&WS[..]));
        }
        for t in toks.iter() {
            text.push_str(t);
            text.push_str(*r.pick(&WS[..]));
        }
        let refs: Vec<&str> = toks.iter().map(|s| s.as_str()).collect();
        // other stacks randomly filled, EXEC empty
        let mut base = if k % 3 == 0 { gen::snap(&mut r, &StateOpts::rich(Vals::Mixed), &names) } else { empty.clone() };
        base.e.clear();
        ctx.rec.case_marker_throttled(case, "balanced tree", 16);
        judge(ctx, &text, Some(&refs), &base, &is, &names, "tree");
        let maxd = {
            let mut d = 0i32;
            let mut m = 0i32;
            for t in refs.iter() {
                if *t == "(" {
                    d += 1;
                    m = m.max(d);
                } else if *t == ")" {
                    d -= 1;
                }
            }
            m
        };
        ctx.rec.cover(&format!("tree|{}|d{}|n{}", shape_class(&refs).chars().take(10).collect::<String>(), maxd, refs.len().min(30)));
        ctx.rec.max("max_tree_depth", maxd as u64);
        ctx.rec.max("max_tokens", refs.len() as u64);
        if k % 3000 == 0 {
            ctx.rec.sample("balanced-tree", &format!("{:?}", text.chars().take(200).collect::<String>()));
        }
    }
    ctx.rec.checkpoint();
}
