//! C20 — neighbourhood computation on index topologies is geometrically sound.
//! Exhaustive grid over (ntotal, ndim, index, radius) against an integer brute-force oracle with
//! don't-care points exactly on the radius; symmetry, monotonicity, centre, ordering; bijection
//! of the index decomposition; LIST.NEIGHBOR* through the D monitor.

use crate::dmon::{judged_step, Judge};
use crate::gen::{self, StateOpts, Vals};
use crate::mon::{guarded, new_iset, panic_sig, sorted_cache};
use crate::refm::{edge_len, neighbours_ref};
use crate::rng::Rng;
use crate::snap::*;
use crate::Ctx;
use pushr::push::topology::Topology;
use std::collections::BTreeSet;

const RADII: [f32; 11] = [0.0, 0.5, 1.0, 1.2, 1.4142135, 1.5, 1.7320508, 2.0, 2.236068, 2.5, 3.0];

fn grid(ctx: &mut Ctx) {
    let nmax = ctx.n(130, 1100);
    let dmax = ctx.n(4, 6);
    let mut case: u64 = 0;
    let mut gridsize: u64 = 0;
    for n in 1..=nmax {
        // thorough: every n up to 300, then a stride plus all perfect powers and their neighbours
        if n > 300 {
            let special = (2..=33usize).any(|b| (2..=6u32).any(|e| {
                let p = b.pow(e);
                p == n || p + 1 == n || p == n + 1
            }));
            if !special && n % 7 != 0 {
                continue;
            }
        }
        for d in 1..=dmax {
            case += 1;
            if !ctx.mine(case) {
                gridsize += (n * RADII.len()) as u64;
                continue;
            }
            ctx.rec.case_marker(case, &format!("grid ntotal={} ndim={}", n, d));
            for (ri, rad) in RADII.iter().enumerate() {
                // neighbourhoods of all centres for this (n, d, r)
                let mut sets: Vec<Option<Vec<i32>>> = Vec::with_capacity(n);
                for idx in 0..n {
                    gridsize += 1;
                    let res = guarded(|| Topology::find_neighbors(&n, &d, &idx, rad));
                    ctx.rec.count("neighbourhoods", 1);
                    match res {
                        Err(p) => {
                            ctx.rec.violation("C20", &format!("find_neighbors|panic|{}", panic_sig(&p)), &format!("{} ; ntotal={} ndim={} index={} radius={}", p, n, d, idx, rad), "");
                            sets.push(None);
                        }
                        Ok(None) => {
                            ctx.rec.violation("C20", "find_neighbors|none-for-valid-arguments", &format!("None for ntotal={} ndim={} index={} radius={}", n, d, idx, rad), "");
                            sets.push(None);
                        }
                        Ok(Some(v)) => {
                            let got = v.values.clone();
                            let (sure, dc) = neighbours_ref(n, d, idx, *rad);
                            ctx.rec.count("dont_care_points", dc.len() as u64);
                            let mut err = None;
                            if !got.contains(&(idx as i32)) {
                                err = Some(("centre-missing", format!("centre {} not in {:?}", idx, got)));
                            } else if got.windows(2).any(|w| w[0] >= w[1]) {
                                err = Some(("not-ascending", format!("{:?}", got)));
                            } else if got.iter().any(|x| *x < 0 || *x as usize >= n) {
                                err = Some(("invalid-index", format!("{:?}", got)));
                            } else if let Some(m) = sure.iter().find(|s| !got.contains(s)) {
                                err = Some(("missing-neighbour", format!("index {} lies inside the radius but is not in {:?}", m, got)));
                            } else if let Some(x) = got.iter().find(|g| !sure.contains(g) && !dc.contains(g)) {
                                err = Some(("false-neighbour", format!("index {} lies outside the radius but is in {:?}", x, got)));
                            }
                            if let Some((class, text)) = err {
                                ctx.rec.violation("C20", &format!("find_neighbors|{}", class), &format!("{} ; ntotal={} ndim={} (edge {}) index={} radius={}", text, n, d, edge_len(n, d), idx, rad), "");
                            }
                            sets.push(Some(got));
                        }
                    }
                }
                // symmetry over all pairs (don't-care points are symmetric too: same distance)
                let lookup: Vec<Option<BTreeSet<i32>>> = sets.iter().map(|s| s.as_ref().map(|v| v.iter().copied().collect())).collect();
                let mut pairs = 0u64;
                'sym: for i in 0..n {
                    if let Some(si) = &lookup[i] {
                        for j in si.iter() {
                            pairs += 1;
                            if let Some(Some(sj)) = lookup.get(*j as usize) {
                                if !sj.contains(&(i as i32)) {
                                    ctx.rec.violation("C20", "find_neighbors|asymmetric", &format!("{} is a neighbour of {} but not vice versa ; ntotal={} ndim={} radius={}", j, i, n, d, rad), "");
                                    break 'sym;
                                }
                            }
                        }
                    }
                }
                ctx.rec.count("symmetry_pairs", pairs);
                // monotone in the radius: compare with the previous radius for a few centres
                if ri > 0 {
                    for idx in [0usize, n / 2, n - 1] {
                        if let (Ok(Some(a)), Some(Some(b))) = (guarded(|| Topology::find_neighbors(&n, &d, &idx, &RADII[ri - 1])), sets.get(idx)) {
                            ctx.rec.count("monotonicity_checks", 1);
                            if a.values.iter().any(|x| !b.contains(x)) {
                                ctx.rec.violation("C20", "find_neighbors|not-monotone", &format!("radius {} -> {} lost a neighbour ; ntotal={} ndim={} index={}", RADII[ri - 1], rad, n, d, idx), "");
                            }
                        }
                    }
                }
                let perfect = edge_len(n, d).pow(d as u32) == n;
                ctx.rec.cover(&format!("n{}|d{}|r{}|{}", n, d, ri, if perfect { "perfect" } else { "overhang" }));
            }
            if n == 27 && d == 3 {
                if let Ok(Some(v)) = guarded(|| Topology::find_neighbors(&n, &d, &13, &1.0)) {
                    ctx.rec.sample("neighbourhood", &format!("ntotal=27 ndim=3 index=13 radius=1.0 -> {:?}", v.values));
                }
            }
        }
    }
    ctx.rec.note("grid_size", &gridsize.to_string());
}

fn decomposition(ctx: &mut Ctx) {
    // decompose_index is a bijection between 0..edge^dim and [0,edge)^dim
    let emax = ctx.n(12, 24);
    for edge in 1..=emax {
        for dim in 1..=5usize {
            let total = match (edge as u64).checked_pow(dim as u32) {
                Some(t) if t <= ctx.n(20000, 300000) as u64 => t as usize,
                _ => continue,
            };
            if !ctx.mine((edge * 10 + dim) as u64) {
                continue;
            }
            let mut seen = BTreeSet::new();
            for idx in 0..total {
                ctx.rec.count("decompositions", 1);
                match guarded(|| Topology::decompose_index(&idx, &edge, &dim)) {
                    Ok(Some(c)) => {
                        let back: usize = c.iter().enumerate().map(|(k, x)| x * edge.pow(k as u32)).sum();
                        if c.len() != dim || c.iter().any(|x| *x >= edge) || back != idx || !seen.insert(c.clone()) {
                            ctx.rec.violation("C20", "decompose_index|not-bijective", &format!("index {} edge {} dims {} -> {:?} (recomposed {})", idx, edge, dim, c, back), "");
                            break;
                        }
                    }
                    Ok(None) => {
                        ctx.rec.violation("C20", "decompose_index|none", &format!("None for index {} edge {} dims {}", idx, edge, dim), "");
                        break;
                    }
                    Err(p) => {
                        ctx.rec.violation("C20", &format!("decompose_index|panic|{}", panic_sig(&p)), &format!("{} ; index {} edge {} dims {}", p, idx, edge, dim), "");
                        break;
                    }
                }
            }
            ctx.rec.cover(&format!("decomp|e{}|d{}", edge, dim));
        }
    }
    // euclidean_distance: fixed cases, then random coordinate vectors against an f64 oracle
    // (coordinates below 2^12 so that every squared difference is exact in f32; tolerance 4 ulps),
    // plus symmetry, identity and the length-mismatch rule
    for (a, b, want) in [(vec![0usize, 0], vec![3usize, 4], Some(5.0f32)), (vec![1], vec![1], Some(0.0)), (vec![1, 2], vec![1], None), (vec![], vec![], Some(0.0)), (vec![], vec![0], None), (vec![0, 0, 0], vec![2, 3, 6], Some(7.0)), (vec![9, 1], vec![1, 7], Some(10.0))] {
        let got = Topology::euclidean_distance(&a, &b);
        ctx.rec.count("distance_checks", 1);
        if got != want {
            ctx.rec.violation("C20", "euclidean_distance|mismatch", &format!("{:?} {:?} -> {:?} expected {:?}", a, b, got, want), "");
        }
    }
    let nd = ctx.n(20000, 400000);
    for k in 0..nd as u64 {
        if !ctx.mine(k) {
            continue;
        }
        let mut r = Rng::derive(ctx.seed, &[20, 7, k]);
        let la = r.below(7);
        let lb = if r.chance(1, 6) { r.below(7) } else { la };
        let hi = *r.pick(&[2usize, 5, 40, 4000]);
        let a: Vec<usize> = (0..la).map(|_| r.below(hi)).collect();
        let mut b: Vec<usize> = (0..lb).map(|_| r.below(hi)).collect();
        if la == lb && r.chance(1, 8) {
            b = a.clone();
        }
        let got = guarded(|| (Topology::euclidean_distance(&a, &b), Topology::euclidean_distance(&b, &a)));
        ctx.rec.count("distance_checks", 1);
        let (ab, ba) = match got {
            Ok(x) => x,
            Err(p) => {
                ctx.rec.violation("C20", &format!("euclidean_distance|panic|{}", panic_sig(&p)), &format!("{} ; {:?} {:?}", p, a, b), "");
                continue;
            }
        };
        let want = if la != lb { None } else { Some(a.iter().zip(b.iter()).map(|(x, y)| (*x as f64 - *y as f64).powi(2)).sum::<f64>().sqrt()) };
        let ok = match (ab, want) {
            (None, None) => true,
            (Some(g), Some(w)) => {
                let w32 = w as f32;
                g.is_finite() && (g == w32 || (g.to_bits() as i64 - w32.to_bits() as i64).abs() <= 4) && (a != b || g == 0.0)
            }
            _ => false,
        };
        if !ok || ab.map(f32::to_bits) != ba.map(f32::to_bits) {
            ctx.rec.violation("C20", "euclidean_distance|mismatch", &format!("{:?} {:?} -> {:?} / reversed {:?}, expected {:?}", a, b, ab, ba, want), "");
        }
        ctx.rec.cover(&format!("dist|len{}|{}|hi{}", la, if la != lb { "mismatch" } else if a == b { "same" } else { "differ" }, hi));
    }
}

fn instructions(ctx: &mut Ctx) {
    let (mut is, names) = new_iset();
    let cache = sorted_cache(&is);
    let judge = Judge { frame: true, reference: true };
    const NB: [&str; 4] = ["LIST.NEIGHBOR*IDS", "LIST.NEIGHBOR*BVALS", "LIST.NEIGHBOR*IVALS", "LIST.NEIGHBOR*FVALS"];
    let n = ctx.n(30000, 600000);
    for k in 0..n as u64 {
        if !ctx.mine(k) {
            continue;
        }
        let mut r = Rng::derive(ctx.seed, &[20, k]);
        let name = NB[(k % 4) as usize];
        let mut s = gen::snap(&mut r, &StateOpts { vals: Vals::Small, max_depth: 3, graphs: false, io: false, bindings: false, flags: false, random_cfg: false }, &names);
        // records on the CODE stack
        let nrec = r.below(12);
        s.c = (0..nrec)
            .map(|_| {
                let o = gen::ItemOpts { vals: Vals::Small, instrs: false, names: true, vectors: false, floats: true, max_children: 4 };
                gen::item(&mut r, 2, &o, &names)
            })
            .collect();
        // one case in four: some "records" are bare NAMES that are bound to records with other values
        // (a record is the CODE item itself: LIST.NEIGHBOR* does not look names up)
        if k % 4 == 1 && !s.c.is_empty() {
            for j in 0..1 + r.below(2) {
                let key = format!("rec{}", j);
                s.nb.insert(key.clone(), SItem::List(vec![SItem::Int(770 + j as i32), SItem::Float(fb(77.5)), SItem::Bool(true)]));
                let at = r.below(s.c.len());
                s.c[at] = SItem::Name(key);
            }
        }
        // operands: dims (deepest), index, size, [position]; hostile values included
        let hostile = r.chance(1, 4);
        let size = if hostile { *r.pick(&[-5, -1, 0, 1, 2, 64, 125]) } else { r.range(1, 40) as i32 };
        let index = if hostile { *r.pick(&[i32::MIN, -1, 0, 1000, i32::MAX]) } else { r.range(0, (size as i64 - 1).max(0)) as i32 };
        let dims = if hostile { *r.pick(&[i32::MIN, -1, 0, 1, 2, 3, 50, i32::MAX]) } else { r.range(1, 3) as i32 };
        s.i.insert(0, dims);
        s.i.insert(0, index);
        s.i.insert(0, size);
        if name != "LIST.NEIGHBOR*IDS" {
            s.i.insert(0, if hostile { *r.pick(&[-1, 0, 1, 5, i32::MAX]) } else { r.range(0, 2) as i32 });
        }
        let rad = if hostile { *r.pick(&[f32::NAN, -1.0, f32::INFINITY, 0.0, 1e30]) } else { *r.pick(&RADII) };
        s.f.insert(0, fb(rad));
        let mut st = build_state(&s);
        ctx.rec.case_marker(k, name);
        let ev = judged_step("C20", name, &mut st, &mut is, &cache, &mut ctx.rec, judge, &format!("size={} index={} dims={} radius={}", size, index, dims, rad));
        ctx.rec.count("instr_steps", 1);
        ctx.rec.set_add("instructions", name);
        ctx.rec.cover(&format!("{}|{}|s{}|d{}|fired{:?}", name, hostile, size.clamp(-1, 41), dims.clamp(-1, 4), ev.fired));
        if k % 1500 < 4 {
            if let Some(p) = &ev.post {
                ctx.rec.sample("neighbor-instruction", &format!("{} : {}  =>  {}", name, ev.pre.summary(), p.summary()));
            }
        }
    }
}

/// Sizes beyond what f32 resolves exactly (the edge length is estimated in f32): a handful of
/// totals above 2^24 and just above perfect powers, radius 0 and 1, where the expected
/// neighbourhood follows directly from the exact integer edge length.
fn beyond_f32(ctx: &mut Ctx) {
    if ctx.is_fuzz() || ctx.mode == "miri" {
        return;
    }
    let sizes: [(usize, usize); 8] = [(16_777_217, 1), (16_777_217, 2), (16_777_219, 1), (5_764_802, 8), (6_765_202, 4), (16_777_217, 3), (33_554_433, 1), (16_974_594, 2)];
    let mut case = 5_000_000u64;
    for (n, d) in sizes.iter() {
        for which in 0..4usize {
            for rad in [0.0f32, 1.0] {
                case += 1;
                // release build only: tens of millions of iterations per call
                if !ctx.mine(case) || ctx.profile != "release" {
                    continue;
                }
                let idx = [0usize, 1, n / 2, n - 1][which];
                ctx.rec.case_marker(case, &format!("beyond-f32 ntotal={} ndim={} index={} radius={}", n, d, idx, rad));
                let e = edge_len(*n, *d);
                let mut want: Vec<i32> = vec![idx as i32];
                if rad >= 1.0 {
                    let mut stride = 1usize;
                    let mut rest = idx;
                    for _ in 0..*d {
                        let c = rest % e;
                        rest /= e;
                        if c > 0 {
                            want.push((idx - stride) as i32);
                        }
                        if c + 1 < e && idx + stride < *n {
                            want.push((idx + stride) as i32);
                        }
                        stride = stride.saturating_mul(e);
                    }
                }
                want.sort();
                want.dedup();
                let got = guarded(|| Topology::find_neighbors(n, d, &idx, &rad));
                ctx.rec.count("neighbourhoods", 1);
                ctx.rec.count("beyond_f32_cases", 1);
                match got {
                    Err(p) => ctx.rec.violation("C20", &format!("find_neighbors|panic|{}", panic_sig(&p)), &format!("{} ; ntotal={} ndim={} index={} radius={}", p, n, d, idx, rad), ""),
                    Ok(None) => ctx.rec.violation("C20", "find_neighbors|none-for-valid-arguments", &format!("None for ntotal={} ndim={} index={} radius={}", n, d, idx, rad), ""),
                    Ok(Some(v)) => {
                        if v.values != want {
                            ctx.rec.violation("C20", "find_neighbors|beyond-f32-resolution", &format!("ntotal={} ndim={} (exact edge {}) index={} radius={}: got {:?}, expected {:?}", n, d, e, idx, rad, v.values.iter().take(12).collect::<Vec<_>>(), want), "");
                        }
                    }
                }
                ctx.rec.cover(&format!("beyond|n{}|d{}|w{}|r{}", n, d, which, rad));
            }
        }
    }
}

/// Fully filled hypercubes in MANY dimensions (ndim 5..10 lie outside the exhaustive grid) and their
/// neighbours k^d - 1, k^d + 1: the edge-length estimate is most fragile exactly there. Compared with
/// the brute-force oracle at a few centres and radii.
fn perfect_powers(ctx: &mut Ctx) {
    if ctx.is_fuzz() || ctx.mode == "miri" {
        return;
    }
    let limit = ctx.n(120_000, 1_500_000) as u128;
    let mut case = 6_000_000u64;
    for d in 3..=12usize {
        for k in 2..=40u128 {
            let p = k.pow(d as u32);
            if p > limit {
                break;
            }
            for n in [p - 1, p, p + 1] {
                let n = n as usize;
                if n < 2 {
                    continue;
                }
                case += 1;
                if !ctx.mine(case) {
                    continue;
                }
                ctx.rec.case_marker(case, &format!("perfect power family ntotal={} ndim={}", n, d));
                for idx in [0usize, n / 2, n - 1] {
                    // (radii that ARE lattice distances - 1, 2, 3, sqrt 2.. as f32 - only on the smaller cubes: the
                    // points exactly on the sphere are where a distance computed one ulp off shows)
                    let radii: &[f32] = if n <= 20_000 { &[0.0, 1.0, 1.5, 2.0, 3.0, 1.4142135, 2.4494898, 3.1622777] } else { &[0.0, 1.0, 1.5] };
                    for rad in radii.iter().copied() {
                        let got = guarded(|| Topology::find_neighbors(&n, &d, &idx, &rad));
                        ctx.rec.count("neighbourhoods", 1);
                        ctx.rec.count("perfect_power_cases", 1);
                        match got {
                            Err(p) => ctx.rec.violation("C20", &format!("find_neighbors|panic|{}", panic_sig(&p)), &format!("{} ; ntotal={} ndim={} index={} radius={}", p, n, d, idx, rad), ""),
                            Ok(None) => ctx.rec.violation("C20", "find_neighbors|none-for-valid-arguments", &format!("None for ntotal={} ndim={} index={} radius={}", n, d, idx, rad), ""),
                            Ok(Some(v)) => {
                                let (sure, dc) = neighbours_ref(n, d, idx, rad);
                                let gotv = v.values;
                                let bad = sure.iter().any(|s| !gotv.contains(s)) || gotv.iter().any(|g| !sure.contains(g) && !dc.contains(g));
                                if bad {
                                    ctx.rec.violation("C20", "find_neighbors|many-dimensions", &format!("ntotal={} ndim={} (exact edge {}) index={} radius={}: got {:?}, expected {:?}", n, d, edge_len(n, d), idx, rad, gotv.iter().take(16).collect::<Vec<_>>(), sure.iter().take(16).collect::<Vec<_>>()), "");
                                }
                            }
                        }
                    }
                }
                ctx.rec.cover(&format!("pp|d{}|k{}|{}", d, k, n as i128 - p as i128));
            }
        }
    }
}

pub fn run(ctx: &mut Ctx) {
    grid(ctx);
    ctx.rec.checkpoint();
    perfect_powers(ctx);
    ctx.rec.checkpoint();
    beyond_f32(ctx);
    ctx.rec.checkpoint();
    decomposition(ctx);
    ctx.rec.checkpoint();
    instructions(ctx);
    ctx.rec.checkpoint();
}
