//! C08 — CODE list surgery is coherent with depth-first point indexing.
//! D monitor on the CODE.* instructions + direct checks of the Item::* API + metamorphic
//! relations (INSERT/EXTRACT, POSITION/EXTRACT, DISCREPANCY symmetry), on random trees with
//! planted occurrences.

use crate::dmon::{judged_step, Judge};
use crate::gen::{self, ItemOpts, Vals};
use crate::mon::{guarded, new_iset, panic_sig, sorted_cache, step_named};
use crate::rng::Rng;
use crate::snap::*;
use crate::Ctx;
use pushr::push::item::Item;

pub const OPS: [&str; 19] = [
    "CODE.SIZE",
    "CODE.EXTRACT",
    "CODE.INSERT",
    "CODE.POSITION",
    "CODE.CONTAINER",
    "CODE.SUBST",
    "CODE.CAR",
    "CODE.CDR",
    "CODE.CONS",
    "CODE.LIST",
    "CODE.LENGTH",
    "CODE.NTH",
    "CODE.NULL",
    "CODE.ATOM",
    "CODE.MEMBER",
    "CODE.CONTAINS",
    "CODE.=",
    "CODE.DISCREPANCY",
    "CODE.APPEND",
];

fn tree(r: &mut Rng, budget: usize, names: &[String]) -> SItem {
    let o = ItemOpts { vals: Vals::Small, instrs: true, names: true, vectors: true, floats: true, max_children: 4 };
    let t = gen::item_budget(r, budget, if budget > 16 { 8 } else { 4 }, &o, names);
    // force a list most of the time (atoms are covered, but lists are where the structure is)
    if !t.is_list() && r.chance(3, 4) {
        SItem::List(vec![t, gen::item_budget(r, budget / 2 + 1, 3, &o, names)])
    } else {
        t
    }
}

fn random_point(r: &mut Rng, t: &SItem) -> SItem {
    let mut pts = vec![];
    t.preorder(&mut pts);
    pts[r.below(pts.len())].clone()
}

fn api_checks(ctx: &mut Ctx, t: &SItem, u: &SItem, w: &SItem) {
    let ti = t.to_item();
    let ui = u.to_item();
    let wi = w.to_item();
    let mut pts = vec![];
    t.preorder(&mut pts);
    let n = pts.len();
    let mut bad = |ctx: &mut Ctx, what: &str, text: String| {
        ctx.rec.violation("C08", &format!("{}|mismatch", what), &format!("{} ; t={} u={} w={}", text, t, u, w), "");
    };
    let r = guarded(|| {
        let mut errs: Vec<(String, String)> = vec![];
        if Item::size(&ti) != n {
            errs.push(("Item::size".into(), format!("size {} but {} points", Item::size(&ti), n)));
        }
        for i in 0..n + 2 {
            match Item::traverse(&ti, i) {
                Ok(x) => {
                    if i >= n || SItem::of(&x) != *pts[i] {
                        errs.push(("Item::traverse".into(), format!("traverse({}) = {} but point is {:?}", i, SItem::of(&x), pts.get(i).map(|p| p.to_string()))));
                    }
                }
                Err(_) => {
                    if i < n {
                        errs.push(("Item::traverse".into(), format!("traverse({}) failed inside a tree of {} points", i, n)));
                    }
                }
            }
        }
        // insert at every point 1..n (0 is delegated to the caller by the API's own contract)
        for i in 1..n + 2 {
            let mut c = ti.clone();
            let _ = Item::insert(&mut c, &ui, i);
            let mut want = t.clone();
            let mut k = i;
            if i < n {
                want.replace_point(&mut k, u);
            }
            if SItem::of(&c) != want {
                errs.push(("Item::insert".into(), format!("insert at point {}: expected {} got {}", i, want, SItem::of(&c))));
            }
        }
        let occ: Vec<usize> = pts.iter().enumerate().filter(|(_, p)| **p == u).map(|(k, _)| k).collect();
        match Item::contains(&ti, &ui, 0) {
            Ok(p) => {
                if !occ.contains(&p) {
                    errs.push(("Item::contains".into(), format!("contains reported point {} but occurrences are {:?}", p, occ)));
                }
            }
            Err(()) => {
                if !occ.is_empty() {
                    errs.push(("Item::contains".into(), format!("contains found nothing but occurrences are {:?}", occ)));
                }
            }
        }
        if Item::equals(&ti, &ui) != (t == u) {
            errs.push(("Item::equals".into(), format!("equals = {} but structural equality = {}", Item::equals(&ti, &ui), t == u)));
        }
        // container: parent list of some occurrence
        let parents: Vec<&SItem> = pts.iter().filter(|p| matches!(p, SItem::List(v) if v.iter().any(|x| x == u))).cloned().collect();
        match Item::container(&ti, &ui) {
            Ok(c) => {
                let sc = SItem::of(&c);
                if !parents.iter().any(|p| **p == sc) {
                    errs.push(("Item::container".into(), format!("container {} is not the parent list of an occurrence", sc)));
                } else if t != u && crate::refm::first_container(t, u).as_ref() != Some(&sc) {
                    errs.push(("Item::container".into(), format!("container {} is not the list holding the FIRST occurrence (depth-first) of {} in {}", sc, u, t)));
                }
            }
            Err(_) => {
                if !parents.is_empty() {
                    errs.push(("Item::container".into(), "no container found although the pattern occurs inside a list".into()));
                }
            }
        }
        // substitute u -> w
        let mut c = ti.clone();
        let whole = Item::substitute(&mut c, &ui, &wi);
        fn subst(t: &SItem, p: &SItem, s: &SItem) -> SItem {
            if t == p {
                return s.clone();
            }
            match t {
                SItem::List(v) => SItem::List(v.iter().map(|x| subst(x, p, s)).collect()),
                o => o.clone(),
            }
        }
        if whole != (t == u) {
            errs.push(("Item::substitute".into(), format!("returned {} but target==pattern is {}", whole, t == u)));
        }
        if !whole && SItem::of(&c) != subst(t, u, w) {
            errs.push(("Item::substitute".into(), format!("expected {} got {}", subst(t, u, w), SItem::of(&c))));
        }
        errs
    });
    match r {
        Ok(errs) => {
            for (what, text) in errs {
                bad(ctx, &what, text);
            }
        }
        Err(p) => ctx.rec.violation("C08", &format!("Item-API|panic|{}", panic_sig(&p)), &format!("Item API panicked: {} ; t={} u={}", p, t, u), ""),
    }
    ctx.rec.count("api_relations", (3 * n + 8) as u64);
}

pub fn run(ctx: &mut Ctx) {
    let (mut is, names) = new_iset();
    let cache = sorted_cache(&is);
    let judge = Judge { frame: true, reference: true };
    let ncase = ctx.n(15000, 2000000);
    for case in 0..ncase as u64 {
        if !ctx.mine(case) {
            continue;
        }
        let mut r = Rng::derive(ctx.seed, &[8, case]);
        // one case in six uses a large tree (up to ~80 points, nesting up to 8)
        // (choices are DRAWN, not taken from residues of the case number: residues alias - large trees would
        // never have met planted floats or repeated occurrences)
        let budget = if r.chance(1, 6) { 20 + r.below(60) } else { 2 + r.below(13) };
        let mut t = tree(&mut r, budget, &names);
        if r.chance(1, 4) {
            // make sure float literals occur (they are where equality is most delicate)
            if let SItem::List(v) = &mut t {
                let pos = r.below(v.len() + 1);
                v.insert(pos, SItem::Float(fb(*r.pick(&[1.5f32, 0.1, 3.25, -2.75, 100.0, 1.0, 0.333]))));
            }
        }
        let u = match r.below(4) {
            0 | 1 => random_point(&mut r, &t),
            2 => tree(&mut r, 3, &names),
            _ => {
                // a near miss: an occurrence with one atom changed - if it has a float atom, that
                // float moved by ONE unit in the last place (same printed form, different value)
                let mut c = random_point(&mut r, &t);
                let mut pts = vec![];
                c.preorder(&mut pts);
                let floats: Vec<(usize, u32)> = pts.iter().enumerate().filter_map(|(i, p)| if let SItem::Float(b) = p { Some((i, *b)) } else { None }).collect();
                // same TEXT, different KIND: an instruction atom turned into a name spelled the same (or the
                // reverse) prints identically and is a different item
                let texty: Vec<(usize, SItem)> = pts
                    .iter()
                    .enumerate()
                    .filter_map(|(i, p)| match p {
                        SItem::Instr(t) => Some((i, SItem::Name(t.clone()))),
                        SItem::Name(t) => Some((i, SItem::Instr(t.clone()))),
                        _ => None,
                    })
                    .collect();
                if !texty.is_empty() && r.chance(1, 3) {
                    let (i, repl) = texty[r.below(texty.len())].clone();
                    let mut k = i;
                    c.replace_point(&mut k, &repl);
                } else if !floats.is_empty() && r.bool() {
                    let (i, b) = floats[r.below(floats.len())];
                    let f = fl(b);
                    let nb = if f.is_finite() && f != 0.0 { if r.bool() { b + 1 } else { b - 1 } } else { fb(1.5) };
                    let mut k = i;
                    c.replace_point(&mut k, &SItem::Float(nb));
                } else {
                    let mut k = r.below(c.points());
                    c.replace_point(&mut k, &SItem::Int(99));
                }
                c
            }
        };
        // one case in three: the searched item occurs SEVERAL times, at different depths and in
        // both orders (nested first / direct first): "first occurrence in depth-first order" and
        // "every occurrence" only differ from cheaper strategies on such trees
        if r.chance(1, 3) {
            if let SItem::List(v) = &mut t {
                let nested_first = r.bool();
                let copy = u.clone();
                if let Some(SItem::List(inner)) = v.iter_mut().find(|x| matches!(x, SItem::List(_))) {
                    let p = r.below(inner.len() + 1);
                    inner.insert(p, copy.clone());
                } else {
                    v.insert(0, SItem::List(vec![copy.clone()]));
                }
                let first_list = v.iter().position(|x| matches!(x, SItem::List(_))).unwrap_or(0);
                let pos = if nested_first { first_list + 1 + r.below(v.len() - first_list) } else { r.below(first_list + 1) };
                v.insert(pos.min(v.len()), copy);
            }
        }
        let w = tree(&mut r, 3, &names);
        ctx.rec.case_marker(case, "api");
        api_checks(ctx, &t, &u, &w);
        let size = t.points() as i32;
        for (oi, op) in OPS.iter().enumerate() {
            // roles: top = t (the container), second = u, third = w; and sometimes swapped
            let swapped = (case + oi as u64) % 5 == 0;
            let mut s = Snap::empty();
            s.c = if swapped { vec![u.clone(), t.clone(), w.clone()] } else { vec![t.clone(), u.clone(), w.clone()] };
            if *op == "CODE.SUBST" && !swapped {
                // CODE.SUBST roles: top = target, second = substitute, third = pattern. A random
                // pattern hardly ever occurs in the target, so the roles are chosen on purpose:
                match r.below(8) {
                    0 | 1 | 2 | 3 => {
                        // the pattern is a point of the target (or a near miss of one)
                        s.c = vec![t.clone(), w.clone(), u.clone()];
                    }
                    4 | 5 => {
                        // self-similar target: P is a list containing S, and the target contains
                        // L = P with that S replaced by P, so that L[P := S] == P. The documented
                        // single depth-first pass replaces the inner P only.
                        let sub = w.clone();
                        let mut pv: Vec<SItem> = (0..r.below(3)).map(|_| tree(&mut r, 1, &names)).collect();
                        let at = r.below(pv.len() + 1);
                        pv.insert(at, sub.clone());
                        let pat = SItem::List(pv.clone());
                        let mut lv = pv.clone();
                        lv[at] = pat.clone();
                        let l = SItem::List(lv);
                        let mut target = t.clone();
                        if r.chance(1, 3) {
                            // the WHOLE target is L: it becomes equal to the pattern only through the pass itself
                            // (a "target equals pattern" test made after the pass replaces a second time)
                            target = l.clone();
                        } else if r.bool() {
                            let mut k = r.below(target.points());
                            if k == 0 {
                                target = SItem::List(vec![l.clone(), t.clone()]);
                            } else {
                                target.replace_point(&mut k, &l);
                            }
                        } else {
                            target = SItem::List(vec![l.clone(), SItem::List(vec![l.clone()]), tree(&mut r, 2, &names)]);
                        }
                        s.c = vec![target, sub, pat];
                    }
                    7 => {
                        // pattern and substitute are PRINT TWINS (same kind, same printed text, different
                        // value), as atoms or inside small lists; the target holds the pattern
                        let f = *r.pick(&[0.25f32, 0.5, 1.5, -2.75, 0.123]);
                        let g = f + *r.pick(&[0.0004f32, 0.0001, -0.0003]);
                        let (pat, sub) = if r.bool() {
                            (SItem::Float(fb(f)), SItem::Float(fb(g)))
                        } else {
                            (SItem::List(vec![SItem::Float(fb(f)), SItem::Int(1)]), SItem::List(vec![SItem::Float(fb(g)), SItem::Int(1)]))
                        };
                        let mut target = t.clone();
                        if let SItem::List(v) = &mut target {
                            let at = r.below(v.len() + 1);
                            v.insert(at, pat.clone());
                            v.push(SItem::List(vec![SItem::Int(3), pat.clone()]));
                        }
                        s.c = vec![target, sub, pat];
                    }
                    6 => {
                        // the substitute contains the pattern: no second pass over the replacement
                        let sub = SItem::List(vec![w.clone(), u.clone(), SItem::List(vec![u.clone()])]);
                        s.c = vec![t.clone(), sub, u.clone()];
                    }
                    _ => {}
                }
            }
            if r.chance(1, 3) {
                s.c.push(tree(&mut r, 4, &names));
            }
            let idx: i32 = match r.below(6) {
                0 => *r.pick(&[i32::MIN, i32::MAX, 0, -1]),
                1 => r.range(-2 * size as i64, -1) as i32,
                2 => r.range(size as i64, 2 * size as i64) as i32,
                _ => r.range(0, size as i64 - 1) as i32,
            };
            s.i = vec![idx, 5];
            s.b = vec![true];
            let mut st = build_state(&s);
            ctx.rec.case_marker(case, op);
            let ev = judged_step("C08", op, &mut st, &mut is, &cache, &mut ctx.rec, judge, &format!("index={} size={}", idx, size));
            ctx.rec.count("steps", 1);
            let top_size = ev.pre.c[0].points() as i32;
            let ic = if idx < 0 { "neg" } else if idx == 0 { "0" } else if idx < top_size { "in" } else { "beyond" };
            ctx.rec.cover(&format!("{}|{}|d{}|s{}|{}", op, ic, ev.pre.c[0].depth().min(4), (top_size as usize).min(15), if ev.pre.c[0] == ev.pre.c[1] { "eq" } else { "ne" }));
            ctx.rec.set_add("instructions", op);
            let post = match ev.post {
                Some(p) => p,
                None => continue,
            };
            if case % 500 == 0 && oi < 6 {
                ctx.rec.sample("surgery", &format!("{} : {}  =>  {}", op, ev.pre.summary(), post.summary()));
            }
            // ---- metamorphic follow-ups -----------------------------------------------------
            match *op {
                "CODE.INSERT" if idx >= 0 && idx < top_size => {
                    // a following EXTRACT at i yields the inserted item
                    st.int_stack.push(idx);
                    let o2 = step_named(&mut st, &mut is, &cache, "CODE.EXTRACT");
                    ctx.rec.count("relations", 1);
                    if o2.panic.is_none() {
                        let p2 = Snap::of(&st);
                        if p2.c.is_empty() || p2.c[0] != ev.pre.c[1] {
                            ctx.rec.violation(
                                "C08",
                                "CODE.INSERT|extract-after-insert",
                                &format!("INSERT at {} then EXTRACT at {} gave {} instead of the inserted {} ; before: {}", idx, idx, p2.c.get(0).map(|x| x.to_string()).unwrap_or_default(), ev.pre.c[1], ev.pre.summary()),
                                "",
                            );
                        }
                    }
                }
                "CODE.POSITION" => {
                    if let Some(p) = post.i.get(0).copied() {
                        ctx.rec.count("relations", 1);
                        if p >= 0 {
                            // EXTRACT p of the container returns the searched item
                            let mut s2 = Snap::empty();
                            s2.c = vec![ev.pre.c[0].clone()];
                            s2.i = vec![p];
                            let mut st2 = build_state(&s2);
                            let o2 = step_named(&mut st2, &mut is, &cache, "CODE.EXTRACT");
                            let p2 = Snap::of(&st2);
                            if o2.panic.is_none() && (p2.c.len() != 2 || p2.c[0] != ev.pre.c[1]) {
                                ctx.rec.violation("C08", "CODE.POSITION|extract-at-position", &format!("POSITION said {} but EXTRACT there gives {} not {} ; container {}", p, p2.c[0], ev.pre.c[1], ev.pre.c[0]), "");
                            }
                        }
                    }
                }
                "CODE.DISCREPANCY" => {
                    // symmetry
                    let mut s2 = Snap::empty();
                    s2.c = vec![ev.pre.c[1].clone(), ev.pre.c[0].clone()];
                    let mut st2 = build_state(&s2);
                    let o2 = step_named(&mut st2, &mut is, &cache, "CODE.DISCREPANCY");
                    ctx.rec.count("relations", 1);
                    if o2.panic.is_none() {
                        let p2 = Snap::of(&st2);
                        if p2.i.get(0) != post.i.get(0) {
                            ctx.rec.violation("C08", "CODE.DISCREPANCY|asymmetric", &format!("d(a,b)={:?} but d(b,a)={:?} for a={} b={}", post.i.get(0), p2.i.get(0), ev.pre.c[0], ev.pre.c[1]), "");
                        }
                    } else if let Some(p) = o2.panic {
                        ctx.rec.violation("C08", &format!("CODE.DISCREPANCY|panic|{}", panic_sig(&p)), &format!("swapped operands panicked: {}", p), "");
                    }
                }
                _ => {}
            }
        }
    }
    ctx.rec.checkpoint();
}
