//! C17 — ring buffer and INPUT/OUTPUT queues deliver items in order, losing none silently.
//! H monitor (bounded-sequence model + cursor invariant hook) on PushBuffer, exhaustive for
//! short histories on capacities 1..5 and random for long ones; D monitor on INPUT.* / OUTPUT.*.

use crate::dmon::{judged_step, Judge};
use crate::gen::{self, StateOpts, Vals};
use crate::mon::{guarded, new_iset, panic_sig, sorted_cache};
use crate::rng::Rng;
use crate::snap::*;
use crate::Ctx;
use pushr::push::buffer::{BufferType, PushBuffer};

#[derive(Clone, Copy, Debug, PartialEq)]
enum Op {
    Push,
    Force,
    Pop,
    Flush,
}
const OPS: [Op; 4] = [Op::Push, Op::Force, Op::Pop, Op::Flush];

struct H {
    real: PushBuffer<i32>,
    model: Vec<i32>, // oldest first
    cap: usize,
    queue: bool,
    next: i32,
    dropped_on_full: u64,
    wraps: u64,
    last_start: usize,
    /// sparse observation: while set, nothing is read back after an op (pop's own result is still compared)
    quiet: bool,
}

impl H {
    fn new(cap: usize, queue: bool) -> H {
        H { real: PushBuffer::new(if queue { BufferType::Queue } else { BufferType::Stack }, cap), model: vec![], cap, queue, next: 10, dropped_on_full: 0, wraps: 0, last_start: 0, quiet: false }
    }
    /// unique ids, except that every fifth element is the element type's DEFAULT value (0): a
    /// vacated cell and a stored default must not be confused
    fn val(&mut self) -> i32 {
        self.next += 1;
        if self.next % 5 == 0 {
            0
        } else {
            self.next
        }
    }
    fn apply(&mut self, op: Op) -> Result<(), String> {
        match op {
            Op::Push => {
                let v = self.val();
                self.real.push(v);
                if self.model.len() < self.cap {
                    self.model.push(v);
                } else {
                    self.dropped_on_full += 1;
                }
            }
            Op::Force => {
                let v = self.val();
                self.real.push_force(v);
                if self.model.len() == self.cap {
                    self.model.remove(0);
                }
                self.model.push(v);
            }
            Op::Pop => {
                let a = self.real.pop();
                let b = if self.model.is_empty() {
                    None
                } else if self.queue {
                    Some(self.model.remove(0))
                } else {
                    self.model.pop()
                };
                if a != b {
                    return Err(format!("pop returned {:?}, model {:?}", a, b));
                }
            }
            Op::Flush => {
                self.real.flush();
                self.model.clear();
            }
        }
        if self.quiet {
            return Ok(());
        }
        self.observe()
    }
    /// the reads that take `&self` only (nothing in them can count as a change of the buffer): size, printing,
    /// iteration, indexed reads. Used at both ends of an unobserved stretch, so that the number of buffer
    /// operations between two identical reads is exactly the length of the stretch.
    fn observe_pure(&self) -> Result<(), String> {
        let n = self.model.len();
        if self.real.size() != n || self.real.is_empty() != (n == 0) || self.real.is_full() != (n == self.cap) {
            return Err(format!("size/is_empty/is_full = {}/{}/{} with {} of {} items", self.real.size(), self.real.is_empty(), self.real.is_full(), n, self.cap));
        }
        let it: Vec<i32> = self.real.iter().copied().collect();
        if it != self.model || self.real.iter().len() != n || self.real.iter().count() != n {
            return Err(format!("iteration {:?} but live items oldest-first are {:?}", it, self.model));
        }
        let printed = self.real.to_string();
        let toks: Vec<i32> = printed.split_whitespace().filter_map(|t| t.parse().ok()).collect();
        let mut rev = self.model.clone();
        rev.reverse();
        if toks != self.model && toks != rev {
            return Err(format!("to_string {:?} but the live items (oldest first) are {:?}", printed, self.model));
        }
        for i in 0..self.cap + 2 {
            let want = if i < n { Some(if self.queue { self.model[i] } else { self.model[n - 1 - i] }) } else { None };
            if self.real.get(i).copied() != want || self.real.copy(i) != want {
                return Err(format!("index {}: get={:?} copy={:?}, model {:?}", i, self.real.get(i), self.real.copy(i), want));
            }
        }
        if self.real.peek_oldest().copied() != self.model.first().copied() || self.real.peek_newest().copied() != self.model.last().copied() {
            return Err(format!("peek_oldest/peek_newest {:?}/{:?} but live items {:?}", self.real.peek_oldest(), self.real.peek_newest(), self.model));
        }
        Ok(())
    }

    /// all read operations + the cursor invariant, after every op
    fn observe(&mut self) -> Result<(), String> {
        let n = self.model.len();
        if self.real.size() != n {
            return Err(format!("size {} but model has {}", self.real.size(), n));
        }
        if n > self.cap {
            return Err(format!("size {} exceeds capacity {}", n, self.cap));
        }
        if self.real.is_empty() != (n == 0) || self.real.is_full() != (n == self.cap) {
            return Err(format!("is_empty/is_full = {}/{} with {} of {} items", self.real.is_empty(), self.real.is_full(), n, self.cap));
        }
        if self.real.capacity() != self.cap {
            return Err("capacity changed".into());
        }
        let it: Vec<i32> = self.real.iter().copied().collect();
        if it != self.model {
            return Err(format!("iteration {:?} but live items oldest-first are {:?}", it, self.model));
        }
        if self.real.iter().len() != n {
            return Err("ExactSizeIterator length wrong".into());
        }
        // the iterator through its adaptors (nth / skip / step_by / last / count go through
        // Iterator::nth and friends, which an implementation may override)
        let mut ks: Vec<usize> = vec![0, 1, 2, 3, n / 2, n.saturating_sub(1), n, n + 1];
        ks.sort();
        ks.dedup();
        for k in ks {
            let a = self.real.iter().nth(k).copied();
            let b = self.model.get(k).copied();
            if a != b {
                return Err(format!("iter().nth({}) = {:?} but live items oldest-first are {:?}", k, a, self.model));
            }
            let sk: Vec<i32> = self.real.iter().skip(k).copied().collect();
            let want: Vec<i32> = self.model.iter().skip(k).copied().collect();
            if sk != want {
                return Err(format!("iter().skip({}) = {:?} but live items oldest-first are {:?}", k, sk, self.model));
            }
        }
        for step in 1..4usize {
            let a: Vec<i32> = self.real.iter().step_by(step).copied().collect();
            let b: Vec<i32> = self.model.iter().step_by(step).copied().collect();
            if a != b {
                return Err(format!("iter().step_by({}) = {:?} but live items oldest-first are {:?}", step, a, self.model));
            }
        }
        if self.real.iter().last().copied() != self.model.last().copied() || self.real.iter().count() != n {
            return Err(format!("iter().last()/count() = {:?}/{} but live items oldest-first are {:?}", self.real.iter().last(), self.real.iter().count(), self.model));
        }
        let mut it2 = self.real.iter();
        let first = it2.next().copied();
        if first != self.model.first().copied() || it2.len() != n.saturating_sub(1) {
            return Err(format!("after next(): got {:?}, remaining length {} ; live items {:?}", first, it2.len(), self.model));
        }
        // positions far beyond any capacity are absent like capacity+1
        for far in [usize::MAX, usize::MAX - 1, 1usize << 31, (1usize << 32) + 1, usize::MAX / 2 + 1] {
            if self.real.get(far).is_some() || self.real.copy(far).is_some() || self.real.get_mut(far).is_some() {
                return Err(format!("index {} reported as present", far));
            }
        }
        for i in 0..self.cap + 2 {
            let want = if i < n { Some(if self.queue { self.model[i] } else { self.model[n - 1 - i] }) } else { None };
            let g = self.real.get(i).copied();
            let c = self.real.copy(i);
            let m = self.real.get_mut(i).map(|x| *x);
            if g != want || c != want || m != want {
                return Err(format!("index {}: get={:?} copy={:?} get_mut={:?}, model {:?} (items oldest-first {:?})", i, g, c, m, want, self.model));
            }
        }
        let oldest = self.model.first().copied();
        let newest = self.model.last().copied();
        if self.real.copy_oldest() != oldest || self.real.peek_oldest().copied() != oldest {
            return Err(format!("oldest: copy={:?} peek={:?} model {:?}", self.real.copy_oldest(), self.real.peek_oldest(), oldest));
        }
        if self.real.peek_newest().copied() != newest {
            return Err(format!("peek_newest {:?} model {:?}", self.real.peek_newest(), newest));
        }
        // printing shows exactly the live items (in one consistent order)
        let printed = self.real.to_string();
        let toks: Vec<i32> = printed.split_whitespace().filter_map(|t| t.parse().ok()).collect();
        let fwd = self.model.clone();
        let mut rev = self.model.clone();
        rev.reverse();
        if toks != fwd && toks != rev {
            return Err(format!("to_string {:?} but the live items (oldest first) are {:?}", printed, self.model));
        }
        // representation invariant through the hook
        let (start, end, len, cap, clen) = self.real.verif_cursors();
        if len > cap || clen != cap || start >= cap.max(1) || end >= cap.max(1) || start != (end + len) % cap {
            return Err(format!("cursor invariant broken: start={} end={} len={} capacity={} container={}", start, end, len, cap, clen));
        }
        if start < self.last_start {
            self.wraps += 1;
        }
        self.last_start = start;
        Ok(())
    }
}

fn run_hist(ctx: &mut Ctx, cap: usize, queue: bool, ops: &[Op]) {
    let mut h = H::new(cap, queue);
    let kind = if queue { "Queue" } else { "Stack" };
    for (k, op) in ops.iter().enumerate() {
        let before = h.model.clone();
        if k % 20000 == 19999 {
            ctx.rec.case_marker(k as u64, "long buffer history in progress");
        }
        let r = guarded(|| h.apply(*op));
        ctx.rec.count("ops", 1);
        match r {
            Ok(Ok(())) => {}
            Ok(Err(t)) => {
                let what = t.split(|c: char| c == ' ' || c == ':').next().unwrap_or("").to_string();
                ctx.rec.violation("C17", &format!("PushBuffer<{}>|{}|{:?}", kind, what, op), &format!("{} ; capacity {} ; op #{} {:?} on (oldest..newest) {:?} ; history {:?}", t, cap, k, op, before, &ops[..=k.min(40)]), "");
                return;
            }
            Err(p) => {
                ctx.rec.violation("C17", &format!("PushBuffer<{}>|panic|{}", kind, panic_sig(&p)), &format!("{} ; capacity {} ; op #{} {:?} on {:?}", p, cap, k, op, before), "");
                return;
            }
        }
        if k < 5000 {
            if let Ok((s, e, l, _, _)) = guarded(|| h.real.verif_cursors()) {
                ctx.rec.cover(&format!("{}|cap{}|s{}e{}l{}|{:?}", kind, cap, s, e, l, op));
            }
        }
    }
    ctx.rec.count("histories", 1);
    ctx.rec.count("plain_pushes_ignored_when_full", h.dropped_on_full);
    ctx.rec.count("wraparounds", h.wraps);
}

fn io_part(ctx: &mut Ctx) {
    let (mut is, names) = new_iset();
    let cache = sorted_cache(&is);
    let judge = Judge { frame: true, reference: true };
    const IO: [&str; 8] = ["INPUT.AVAILABLE", "INPUT.READ", "INPUT.GET", "INPUT.NEXT", "INPUT.STACKDEPTH", "OUTPUT.WRITE", "OUTPUT.FLUSH", "OUTPUT.STACKDEPTH"];
    let nseq = ctx.n(1500, 40000);
    for j in 0..nseq as u64 {
        if !ctx.mine(j) {
            continue;
        }
        let mut r = Rng::derive(ctx.seed, &[17, j]);
        // (interpreter flags - pending NAME.QUOTE, pending NAME.SEND - bindings and configuration vary too: no IO instruction reads them)
        let mut s = gen::snap(&mut r, &StateOpts { vals: Vals::Mixed, max_depth: 3, graphs: false, io: false, bindings: j % 3 == 0, flags: true, random_cfg: j % 5 == 0 }, &names);
        if j % 2 == 0 {
            s.s = true;
        }
        s.e.clear();
        let mut st = build_state(&s);
        // model of what was written / delivered, with unique message ids in the header
        let mut next_id = 1000;
        let mut dropped = 0u64;
        for step in 0..40 {
            // environment: messages arrive (plain push: ignored when the queue is full)
            if r.chance(1, 3) {
                next_id += 1;
                let body_len = r.below(5);
                // one message in six is the DEFAULT message (empty header, empty body): it must be
                // delivered like any other
                let degenerate = r.chance(1, 6);
                let header = if degenerate { vec![] } else { vec![next_id] };
                let msg = pushr::push::io::PushMessage::new(pushr::push::vector::IntVector::new(header), pushr::push::vector::BoolVector::new((0..if degenerate { 0 } else { body_len }).map(|_| r.bool()).collect()));
                st.input_stack.push(msg);
            }
            let name = *r.pick(&IO);
            if name == "OUTPUT.WRITE" {
                next_id += 1;
                st.int_vector_stack.push(pushr::push::vector::IntVector::new(vec![next_id]));
                st.bool_vector_stack.push(pushr::push::vector::BoolVector::new(gen::bvec(&mut r, 4)));
                if st.output_stack.is_full() {
                    dropped += 1;
                }
            }
            if name == "INPUT.GET" {
                st.int_stack.push(*r.pick(&[i32::MIN, -1, 0, 1, 2, 3, 4, i32::MAX]));
            }
            ctx.rec.case_marker(j, name);
            let ev = judged_step("C17", name, &mut st, &mut is, &cache, &mut ctx.rec, judge, &format!("sequence {} step {}", j, step));
            ctx.rec.count("io_steps", 1);
            ctx.rec.cover(&format!("{}|in{}|out{}", name, ev.pre.inp.len(), ev.pre.out.len()));
            ctx.rec.set_add("instructions", name);
            if ev.post.is_none() {
                break;
            }
            if j % 400 == 0 && step < 3 {
                ctx.rec.sample("io-step", &format!("{} : IN{} OUT{} => IN{} OUT{}", name, ev.pre.comp_str(St::Input), ev.pre.comp_str(St::Output), ev.post.as_ref().unwrap().comp_str(St::Input), ev.post.as_ref().unwrap().comp_str(St::Output)));
            }
        }
        ctx.rec.count("output_writes_dropped_on_full(documented plain-push rule)", dropped);
    }
}

pub fn run(ctx: &mut Ctx) {
    if ctx.mode == "miri" {
        // small workload for the undefined-behaviour interpreter: capacities 1..3, all histories of
        // length <= 4, one random history with wrap-arounds
        for cap in 1..=3usize {
            for queue in [true, false] {
                for len in 1..=4 {
                    for code in 0..4u64.pow(len as u32) {
                        let mut c = code;
                        let h: Vec<Op> = (0..len).map(|_| { let o = OPS[(c % 4) as usize]; c /= 4; o }).collect();
                        run_hist(ctx, cap, queue, &h);
                    }
                }
            }
        }
        let mut r = Rng::derive(ctx.seed, &[17, 1]);
        let h: Vec<Op> = (0..300).map(|_| OPS[r.below(3)]).collect();
        run_hist(ctx, 3, true, &h);
        run_hist(ctx, 10, false, &h);
        ctx.rec.sample("miri", "capacities 1..3, both kinds, all histories of length <= 4; two random histories of 300 ops");
        ctx.rec.checkpoint();
        return;
    }
    let mut case: u64 = 0;
    let k = if ctx.is_fuzz() { 0 } else { ctx.n(7, 9) };
    let mut space = 0u64;
    for cap in 1..=5usize {
        for queue in [true, false] {
            for len in 1..=k {
                let total = 4u64.pow(len as u32);
                for code in 0..total {
                    case += 1;
                    space += 1;
                    if !ctx.mine(case) {
                        continue;
                    }
                    let mut c = code;
                    let mut h = Vec::with_capacity(len);
                    for _ in 0..len {
                        h.push(OPS[(c % 4) as usize]);
                        c /= 4;
                    }
                    ctx.rec.case_marker_throttled(case, "exhaustive buffer history", 128);
                    run_hist(ctx, cap, queue, &h);
                    if code == total / 2 && len == k && cap == 2 {
                        ctx.rec.sample("exhaustive-history", &format!("capacity {} {} : {:?}", cap, if queue { "queue" } else { "stack" }, h));
                    }
                }
            }
        }
    }
    ctx.rec.note("exhaustive_space", &space.to_string());
    let nr = ctx.n(600, 8000);
    for j in 0..nr as u64 {
        case += 1;
        if !ctx.mine(case) {
            continue;
        }
        let mut r = Rng::derive(ctx.seed, &[17, 99, j]);
        let cap = *r.pick(&[1usize, 2, 3, 5, 10, 100]);
        let queue = r.bool();
        // (fuzz mode: short histories, the tape drives many of them)
        let n = if ctx.is_fuzz() { 300 } else { ctx.n(3000, 10000) };
        let bias = r.below(3);
        let h: Vec<Op> = (0..n)
            .map(|_| match (bias, r.below(12)) {
                (_, 0) => Op::Flush,
                (0, 1..=6) | (1, 1..=4) | (2, 1..=5) => {
                    if r.bool() {
                        Op::Push
                    } else {
                        Op::Force
                    }
                }
                _ => Op::Pop,
            })
            .collect();
        ctx.rec.case_marker(case, "random buffer history");
        run_hist(ctx, cap, queue, &h);
    }
    // endurance: very long histories WITHOUT flush on the capacities pushr really uses (3, 10, 100)
    // and a few others: counters that wrap (u8 / u16) or drift only show after tens of thousands of
    // cursor advances
    let elen = if ctx.is_fuzz() { 0 } else { ctx.n(160_000, 1_200_000) };
    for (j, cap) in [3usize, 10, 100, 7, 1, 16].iter().enumerate() {
        for queue in [true, false] {
            case += 1;
            if !ctx.mine(case) {
                continue;
            }
            let mut r = Rng::derive(ctx.seed, &[17, 55, j as u64, queue as u64]);
            let h: Vec<Op> = (0..elen)
                .map(|_| match r.below(8) {
                    0..=2 => Op::Push,
                    3..=4 => Op::Force,
                    _ => Op::Pop,
                })
                .collect();
            ctx.rec.case_marker(case, "endurance buffer history");
            run_hist(ctx, *cap, queue, &h);
            ctx.rec.count("endurance_histories", 1);
        }
    }
    // sparse observation (see C16 / C18): read, EXACTLY W unobserved operations, read again
    // (every stretch length up to 600 as well: an operation may advance such a counter more than once - a forced
    // push on a full buffer moves both cursors - so that the stale read sits at some W below 2^8; for 16-bit
    // counters only the listed widths are tried: those are found only if they advance once per operation)
    let mut widths: Vec<usize> = if ctx.is_fuzz() { vec![] } else { vec![65535, 65536, 65537, 131072] }; // not tape-driven: skipped under the fuzzer
    if !ctx.is_fuzz() {
        widths.extend(1..=600usize);
    }
    for (wi, w) in widths.iter().enumerate() {
        for (ci, cap) in [3usize, 10, 100].iter().enumerate() {
            for queue in [true, false] {
                case += 1;
                if !ctx.mine(case) {
                    continue;
                }
                let mut r = Rng::derive(ctx.seed, &[17, 99, wi as u64, ci as u64, queue as u64]);
                let mixed = r.bool();
                ctx.rec.case_marker(case, "sparse observation");
                let res = guarded(|| -> Result<(), String> {
                    let mut h = H::new(*cap, queue);
                    h.apply(Op::Push)?;
                    h.apply(Op::Push)?; // two items, fully read
                    h.observe_pure()?;
                    h.quiet = true;
                    for j in 0..*w {
                        let op = if mixed {
                            match r.below(8) {
                                0..=2 => Op::Push,
                                3..=4 => Op::Force,
                                _ => Op::Pop,
                            }
                        } else if j % 3 == 2 {
                            Op::Pop // on a non-empty buffer: every operation of this stretch changes it
                        } else {
                            Op::Force
                        };
                        h.apply(op)?;
                    }
                    h.quiet = false;
                    h.observe_pure()?;
                    h.observe()
                });
                ctx.rec.count("ops", *w as u64 + 2);
                ctx.rec.count("sparse_observation_stretches", 1);
                ctx.rec.max("sparse_observation_longest_unobserved_stretch", *w as u64);
                ctx.rec.cover(&format!("sparse|W{}|cap{}|{}|{}", if *w <= 600 { (*w / 100) * 100 } else { *w }, cap, queue, mixed));
                let kind = if queue { "Queue" } else { "Stack" };
                match res {
                    Ok(Ok(())) => {}
                    Ok(Err(t)) => ctx.rec.violation("C17", &format!("PushBuffer<{}>|sparse-observation|mismatch", kind), &format!("{} ; capacity {} ; read, then {} unobserved operations, then read again", t, cap, w), ""),
                    Err(p) => ctx.rec.violation("C17", &format!("PushBuffer<{}>|sparse-observation|panic|{}", kind, panic_sig(&p)), &p, ""),
                }
            }
        }
    }
    ctx.rec.checkpoint();
    io_part(ctx);
    ctx.rec.checkpoint();
}
