//! C05 — stack-manipulation instructions act uniformly on every stack and conserve items.
//! Exhaustive grid: 9 stack types x ops x depths 0..=D x indices, unique element values
//! (one-hot family for BOOLEAN), plus explicit multiset conservation checks.

use crate::dmon::{judged_step, Judge};
use crate::gen::{self, StateOpts, Vals};
use crate::mon::{new_iset, sorted_cache};
use crate::rng::Rng;
use crate::snap::*;
use crate::Ctx;

const TYPES: [(&str, St); 9] = [
    ("BOOLEAN", St::Bool),
    ("INTEGER", St::Int),
    ("FLOAT", St::Float),
    ("NAME", St::Name),
    ("CODE", St::Code),
    ("EXEC", St::Exec),
    ("BOOLVECTOR", St::BV),
    ("INTVECTOR", St::IV),
    ("FLOATVECTOR", St::FV),
];
const OPS: [&str; 10] = ["DUP", "DDUP", "POP", "SWAP", "ROT", "YANK", "YANKDUP", "SHOVE", "FLUSH", "STACKDEPTH"];

fn takes_index(op: &str) -> bool {
    matches!(op, "YANK" | "YANKDUP" | "SHOVE")
}

/// fill stack `t` with `d` unique elements (position 0 = top gets label 0); `hot` selects the
/// one-hot variant for BOOLEAN
fn fill(s: &mut Snap, t: St, d: usize, hot: usize) {
    match t {
        St::Bool => s.b = (0..d).map(|k| k == hot).collect(),
        St::Int => s.i = (0..d).map(|k| 1000 + k as i32).collect(),
        St::Float => s.f = (0..d).map(|k| fb(k as f32 + 0.5)).collect(),
        St::Name => s.n = (0..d).map(|k| format!("n{}", k)).collect(),
        St::Code => s.c = (0..d).map(|k| if k % 2 == 0 { SItem::Int(1000 + k as i32) } else { SItem::List(vec![SItem::Int(k as i32), SItem::Name(format!("c{}", k))]) }).collect(),
        St::Exec => s.e = (0..d).map(|k| if k % 2 == 1 { SItem::Int(2000 + k as i32) } else { SItem::List(vec![SItem::Float(fb(k as f32)), SItem::Bool(true)]) }).collect(),
        St::BV => s.bv = (0..d).map(|k| (0..k + 1).map(|j| j % 2 == 0).collect()).collect(),
        St::IV => s.iv = (0..d).map(|k| vec![k as i32, -1]).collect(),
        St::FV => s.fv = (0..d).map(|k| vec![fb(k as f32)]).collect(),
        _ => {}
    }
}

/// put the type's "empty" value at position p of stack t
fn degenerate(s: &mut Snap, t: St, p: usize) {
    match t {
        St::Int if p < s.i.len() => s.i[p] = 0,
        St::Float if p < s.f.len() => s.f[p] = fb(0.0),
        St::Name if p < s.n.len() => s.n[p] = String::new(),
        St::Code if p < s.c.len() => s.c[p] = SItem::List(vec![]),
        St::Exec if p < s.e.len() => s.e[p] = SItem::List(vec![]),
        St::BV if p < s.bv.len() => s.bv[p] = vec![],
        St::IV if p < s.iv.len() => s.iv[p] = vec![],
        St::FV if p < s.fv.len() => s.fv[p] = vec![],
        _ => {}
    }
}

/// put two values at positions p and q of stack t that compare EQUAL under `==` but are
/// distinguishable (+0.0 / -0.0, alone or inside a list / vector): an instruction that
/// "optimises" on equality of its operands shows here and nowhere else
fn twins(s: &mut Snap, t: St, p: usize, q: usize) {
    if p == q {
        return;
    }
    let (pz, nz) = (fb(0.0), fb(-0.0));
    match t {
        St::Float if p < s.f.len() && q < s.f.len() => {
            s.f[p] = pz;
            s.f[q] = nz;
        }
        St::Code if p < s.c.len() && q < s.c.len() => {
            s.c[p] = SItem::List(vec![SItem::Float(pz), SItem::Int(7), SItem::FV(vec![nz])]);
            s.c[q] = SItem::List(vec![SItem::Float(nz), SItem::Int(7), SItem::FV(vec![pz])]);
        }
        St::Exec if p < s.e.len() && q < s.e.len() => {
            s.e[p] = SItem::List(vec![SItem::Float(pz), SItem::Int(7)]);
            s.e[q] = SItem::List(vec![SItem::Float(nz), SItem::Int(7)]);
        }
        St::FV if p < s.fv.len() && q < s.fv.len() => {
            s.fv[p] = vec![pz, fb(1.0)];
            s.fv[q] = vec![nz, fb(1.0)];
        }
        _ => {}
    }
}

/// put a large value (n elements / points / bytes) at position p of stack t
fn enlarge(s: &mut Snap, t: St, p: usize, n: usize) {
    match t {
        St::Name if p < s.n.len() => s.n[p] = "n".repeat(n),
        St::Code if p < s.c.len() => s.c[p] = SItem::List((0..n).map(|k| SItem::Int(k as i32)).collect()),
        St::Exec if p < s.e.len() => s.e[p] = SItem::List((0..n).map(|k| SItem::Int(-(k as i32))).collect()),
        St::BV if p < s.bv.len() => s.bv[p] = (0..n).map(|k| k % 3 == 0).collect(),
        St::IV if p < s.iv.len() => s.iv[p] = (0..n as i32).collect(),
        St::FV if p < s.fv.len() => s.fv[p] = (0..n).map(|k| fb(k as f32)).collect(),
        St::Int if p < s.i.len() => s.i[p] = 1_000_000 + n as i32,
        St::Float if p < s.f.len() => s.f[p] = fb(1.0e6 + n as f32),
        _ => {}
    }
}

fn multiset(s: &Snap, t: St) -> Vec<String> {
    let mut v: Vec<String> = match t {
        St::Bool => s.b.iter().map(|x| x.to_string()).collect(),
        St::Int => s.i.iter().map(|x| x.to_string()).collect(),
        St::Float => s.f.iter().map(|x| x.to_string()).collect(),
        St::Name => s.n.clone(),
        St::Code => s.c.iter().map(|x| x.to_string()).collect(),
        St::Exec => s.e.iter().map(|x| x.to_string()).collect(),
        St::BV => s.bv.iter().map(|x| format!("{:?}", x)).collect(),
        St::IV => s.iv.iter().map(|x| format!("{:?}", x)).collect(),
        St::FV => s.fv.iter().map(|x| format!("{:?}", x)).collect(),
        _ => vec![],
    };
    v.sort();
    v
}

pub fn run(ctx: &mut Ctx) {
    let (mut is, names) = new_iset();
    let cache = sorted_cache(&is);
    let judge = Judge { frame: true, reference: true };
    let maxd = ctx.n(7, 12);
    let variants = ctx.n(2, 6);
    let mut case: u64 = 0;
    let mut grid: u64 = 0;
    for (tn, t) in TYPES.iter() {
        for op in OPS.iter() {
            let name = format!("{}.{}", tn, op);
            if !names.contains(&name) {
                // DDUP exists for INTEGER only, ROT for the six non-vector types: not an alarm
                let expected_absent = (*op == "DDUP" && *t != St::Int) || (*op == "ROT" && matches!(t, St::BV | St::IV | St::FV));
                if !expected_absent {
                    ctx.rec.violation("C05", &format!("{}|not-registered", name), "documented stack instruction is not in the registry", "");
                }
                continue;
            }
            ctx.rec.set_add("instructions", &name);
            for d in 0..=maxd {
                let idxs: Vec<i32> = if takes_index(op) {
                    let mut v = vec![i32::MIN, -2, -1];
                    v.extend(0..(d as i32 + 3));
                    v.push(i32::MAX);
                    v
                } else {
                    vec![0]
                };
                let hots: Vec<usize> = if *t == St::Bool { (0..=d).collect() } else { vec![0] };
                for idx in idxs.iter() {
                    for hot in hots.iter() {
                        for var in 0..=variants {
                            case += 1;
                            grid += 1;
                            if !ctx.mine(case) {
                                continue;
                            }
                            let mut r = Rng::derive(ctx.seed, &[5, case]);
                            // bystanders: random; variant 0 has none at all
                            let mut s = if var == 0 { Snap::empty() } else { gen::snap(&mut r, &StateOpts::rich(Vals::Small), &names) };
                            s.q = false;
                            // the target stack and the integer stack are exactly controlled
                            s.i.clear();
                            fill(&mut s, *t, d, *hot);
                            if var == variants && d > 1 {
                                // extra variant: equal-but-distinguishable twins on top and at the
                                // addressed position (or second from top)
                                let q = if takes_index(op) { crate::frame::clamp(*idx, d).max(1).min(d - 1) } else { 1 };
                                twins(&mut s, *t, 0, q);
                            }
                            if var == variants - 1 && d > 0 {
                                // last variant: the addressed position holds the type's "empty" value
                                degenerate(&mut s, *t, crate::frame::clamp(*idx, d));
                            }
                            if takes_index(op) {
                                s.i.insert(0, *idx);
                            } else if *t != St::Int && var > 0 {
                                s.i = vec![7, 8];
                            }
                            let mut st = build_state(&s);
                            ctx.rec.case_marker(case, &name);
                            let ev = judged_step("C05", &name, &mut st, &mut is, &cache, &mut ctx.rec, judge, &format!("depth={} index={} hot={}", d, idx, hot));
                            ctx.rec.count("steps", 1);
                            ctx.rec.cover(&format!("{}|d{}|i{}|h{}", name, d, idx, hot));
                            if let Some(post) = &ev.post {
                                // explicit conservation (own signature, independent of the position map)
                                let mut a = multiset(&ev.pre, *t);
                                let b = multiset(post, *t);
                                if *t == St::Int && takes_index(op) && !ev.pre.i.is_empty() {
                                    // the index itself is consumed
                                    let ix = ev.pre.i[0].to_string();
                                    if let Some(p) = a.iter().position(|x| *x == ix) {
                                        a.remove(p);
                                    }
                                }
                                let fired = ev.fired.unwrap_or(false);
                                let ok = match *op {
                                    "SWAP" | "ROT" | "YANK" | "SHOVE" => a == b,
                                    "DUP" | "YANKDUP" => {
                                        if fired && !a.is_empty() {
                                            b.len() == a.len() + 1 && {
                                                let mut bb = b.clone();
                                                a.iter().all(|x| match bb.iter().position(|y| y == x) {
                                                    Some(p) => {
                                                        bb.remove(p);
                                                        true
                                                    }
                                                    None => false,
                                                }) && a.contains(&bb[0])
                                            }
                                        } else {
                                            a == b
                                        }
                                    }
                                    "DDUP" => {
                                        if fired {
                                            b.len() == a.len() + 2
                                        } else {
                                            a == b
                                        }
                                    }
                                    "POP" => b.len() == a.len().saturating_sub(1),
                                    "FLUSH" => b.is_empty(),
                                    "STACKDEPTH" => {
                                        if *t == St::Int {
                                            b.len() == a.len() + 1
                                        } else {
                                            a == b
                                        }
                                    }
                                    _ => true,
                                };
                                if !ok {
                                    ctx.rec.violation(
                                        "C05",
                                        &format!("{}|conservation", name),
                                        &format!("{} depth={} index={}: multiset of {:?} before {:?} after {:?}", name, d, idx, t, a, b),
                                        "",
                                    );
                                }
                                if d == 3 && var == 0 && (*idx == 1 || !takes_index(op)) && *hot == 0 {
                                    ctx.rec.sample("grid", &format!("{} : {}  =>  {}", name, ev.pre.summary(), post.summary()));
                                }
                            }
                        }
                    }
                }
            }
        }
    }
    ctx.rec.note("grid_size", &grid.to_string());
    ctx.rec.checkpoint();
    // beyond the exhaustive grid: deep stacks (up to 60) with random indices around the depth
    let nrand = ctx.n(60000, 6000000);
    for k in 0..nrand as u64 {
        case += 1;
        if !ctx.mine(case) {
            continue;
        }
        let mut r = Rng::derive(ctx.seed, &[5, 99, k]);
        let (tn, t) = TYPES[r.below(9)];
        let op = OPS[r.below(OPS.len())];
        let name = format!("{}.{}", tn, op);
        if !names.contains(&name) {
            continue;
        }
        // heavy tail: mostly 8..60, sometimes up to 300
        let d = match r.below(10) {
            0 | 1 => 60 + r.below(241),
            2 | 3 => 1 + r.below(7),
            _ => 8 + r.below(53),
        };
        let idx: i32 = match r.below(6) {
            0 => d as i32 - 1,
            1 => d as i32,
            2 => d as i32 - 2,
            3 => *r.pick(&[i32::MIN, -1, 0, 1, i32::MAX]),
            _ => r.below(d + 2) as i32,
        };
        let mut s = Snap::empty();
        let hot = r.below(d);
        fill(&mut s, t, d, hot);
        if t == St::Bool {
            // several TRUEs: still identifies positions pairwise with the one-hot run above
            for j in 0..d {
                if r.chance(1, 3) {
                    s.b[j] = !s.b[j];
                }
            }
        }
        // one position holds the type's "empty" value (empty vector / list / name, 0, 0.0): an item
        // like any other
        if r.chance(1, 3) {
            let p = if r.bool() { crate::frame::clamp(idx, d) } else { r.below(d) };
            degenerate(&mut s, t, p);
        }
        // ... or a LARGE value (a code item beyond max_points_in_program, a long vector / name)
        if r.chance(1, 4) {
            let p = match r.below(3) {
                0 => 0,
                1 => crate::frame::clamp(idx, d),
                _ => r.below(d),
            };
            enlarge(&mut s, t, p, 101 + r.below(200));
        }
        if takes_index(op) {
            s.i.insert(0, idx);
        }
        let mut st = build_state(&s);
        ctx.rec.case_marker(case, &name);
        let ev = judged_step("C05", &name, &mut st, &mut is, &cache, &mut ctx.rec, judge, &format!("deep: depth={} index={}", d, idx));
        ctx.rec.count("steps", 1);
        ctx.rec.count("deep_cases", 1);
        ctx.rec.cover(&format!("deep|{}|d{}|{}", name, (d / 8).min(12), if idx < 0 { "neg" } else if (idx as usize) < d { "in" } else { "beyond" }));
        let _ = ev;
    }
    ctx.rec.checkpoint();
}
