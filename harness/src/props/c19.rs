//! C19 — LIST records move items between stacks without loss, duplication or reordering.
//! D monitor on LIST.ADD/GET/SET/REMOVE/BVAL/IVAL/FVAL + a conservation ledger (multiset of
//! tagged values before = after) + the ADD -> GET -> execute round trip.

use crate::dmon::{judged_exec_step, judged_step, Judge};
use crate::mon::{new_iset, sorted_cache};
use crate::rng::Rng;
use crate::snap::*;
use crate::Ctx;

/// typed stacks with unique values; `empties` clears some of them
fn unique_state(r: &mut Rng, uniq: &mut i32) -> Snap {
    let mut s = Snap::empty();
    let mut nx = || {
        *uniq += 1;
        *uniq
    };
    let deep = r.chance(1, 6);
    let huge = r.chance(1, 25);
    let d = |r: &mut Rng| if r.chance(1, 5) && !huge { 0 } else if huge { 60 + r.below(120) } else if deep { 1 + r.below(20) } else { 1 + r.below(4) };
    s.b = (0..d(r)).map(|k| k % 2 == 0).collect();
    s.i = (0..d(r) + 1).map(|_| nx()).collect();
    s.f = (0..d(r)).map(|_| fb(nx() as f32 + 0.25)).collect();
    s.n = (0..d(r)).map(|_| format!("n{}", nx())).collect();
    s.c = (0..d(r)).map(|_| if r.bool() { SItem::List(vec![SItem::Int(nx()), SItem::Bool(true), SItem::Float(fb(nx() as f32))]) } else { SItem::Int(nx()) }).collect();
    s.e = (0..d(r)).map(|_| SItem::List(vec![SItem::Int(nx())])).collect();
    s.bv = (0..d(r)).map(|_| vec![true, nx() % 2 == 0]).collect();
    s.iv = (0..d(r)).map(|_| vec![nx(), nx()]).collect();
    s.fv = (0..d(r)).map(|_| vec![fb(nx() as f32)]).collect();
    // the items being moved may be RELATED to the rest of the state: names on the NAME stack that are
    // also bound (one state in three), bare bound names among the CODE items (one in six); flags vary.
    // LIST instructions move items, they do not look names up
    if r.chance(1, 3) {
        for (k, n) in s.n.clone().iter().enumerate().take(3) {
            s.nb.insert(n.clone(), if k % 2 == 0 { SItem::Int(9000 + k as i32) } else { SItem::List(vec![SItem::Int(9100 + k as i32), SItem::Bool(false), SItem::Float(fb(9.5))]) });
        }
    }
    if r.chance(1, 6) {
        let key = format!("bound{}", nx());
        s.nb.insert(key.clone(), SItem::List(vec![SItem::Int(7777), SItem::Bool(true), SItem::Float(fb(7.75))]));
        let at = r.below(s.c.len() + 1);
        s.c.insert(at, SItem::Name(key));
    }
    s.q = r.chance(1, 8);
    s.s = r.chance(1, 8);
    s
}

/// multiset of every top-level item of the nine stacks, tagged by kind
fn ledger(s: &Snap) -> Vec<String> {
    let mut v = vec![];
    v.extend(s.b.iter().map(|x| format!("B:{}", x)));
    v.extend(s.i.iter().map(|x| format!("I:{}", x)));
    v.extend(s.f.iter().map(|x| format!("F:{}", x)));
    v.extend(s.n.iter().map(|x| format!("N:{}", x)));
    // code items are tagged by their own kind (values are unique, so an integer atom that
    // travels from the CODE stack into a record keeps its tag)
    v.extend(s.c.iter().map(tag));
    v.extend(s.e.iter().map(tag));
    v.extend(s.bv.iter().map(|x| format!("BV:{:?}", x)));
    v.extend(s.iv.iter().map(|x| format!("IV:{:?}", x)));
    v.extend(s.fv.iter().map(|x| format!("FV:{:?}", x)));
    v.sort();
    v
}
fn tag(x: &SItem) -> String {
    match x {
        SItem::Bool(b) => format!("B:{}", b),
        SItem::Int(i) => format!("I:{}", i),
        SItem::Float(f) => format!("F:{}", f),
        SItem::Name(n) => format!("N:{}", n),
        SItem::BV(v) => format!("BV:{:?}", v),
        SItem::IV(v) => format!("IV:{:?}", v),
        SItem::FV(v) => format!("FV:{:?}", v),
        o => format!("C:{}", o),
    }
}

fn id_vector(r: &mut Rng) -> Vec<i32> {
    let n = if r.chance(1, 30) { 90 + r.below(80) } else if r.chance(1, 6) { 9 + r.below(24) } else { r.below(9) };
    (0..n)
        .map(|_| match r.below(12) {
            0 => *r.pick(&[0, 13, -1, 7, 8, 12, i32::MAX]),
            _ => *r.pick(&[1, 2, 3, 4, 5, 6, 9, 10, 11]),
        })
        .collect()
}

pub fn run(ctx: &mut Ctx) {
    let (mut is, _names) = new_iset();
    let cache = sorted_cache(&is);
    let judge = Judge { frame: true, reference: true };
    let n = ctx.n(40000, 6000000);
    let positions = |r: &mut Rng, size: usize| -> i32 {
        match r.below(6) {
            0 => *r.pick(&[i32::MIN, -1, i32::MAX]),
            1 => size as i32,
            2 => size as i32 + 1,
            _ => r.below(size.max(1)) as i32,
        }
    };
    for k in 0..n as u64 {
        if !ctx.mine(k) {
            continue;
        }
        let mut r = Rng::derive(ctx.seed, &[19, k]);
        let mut uniq = 100;
        let mut s = unique_state(&mut r, &mut uniq);
        ctx.rec.case_marker(k, "list case");
        match k % 6 {
            0 | 1 => {
                // LIST.ADD with conservation ledger
                let ids = id_vector(&mut r);
                s.iv.insert(0, ids.clone());
                let mut st = build_state(&s);
                let ev = judged_step("C19", "LIST.ADD", &mut st, &mut is, &cache, &mut ctx.rec, judge, &format!("ids={:?}", ids));
                ctx.rec.count("steps", 1);
                ctx.rec.set_add("instructions", "LIST.ADD");
                let idclass = format!("{}|inv{}|rep{}", ids.len().min(4), ids.iter().any(|x| ![1, 2, 3, 4, 5, 6, 9, 10, 11].contains(x)), {
                    let mut u = ids.clone();
                    u.sort();
                    u.dedup();
                    u.len() != ids.len()
                });
                ctx.rec.cover(&format!("ADD|{}", idclass));
                if let Some(post) = &ev.post {
                    // ledger: everything that left a stack is in the record, nothing else moved
                    let mut before = ledger(&ev.pre);
                    // the id vector itself is consumed
                    let idtag = format!("IV:{:?}", ids);
                    if let Some(p) = before.iter().position(|x| *x == idtag) {
                        before.remove(p);
                    }
                    let mut after_state = post.clone();
                    let rec_items: Vec<SItem> = match after_state.c.first() {
                        Some(SItem::List(v)) => v.clone(),
                        _ => vec![],
                    };
                    if !after_state.c.is_empty() {
                        after_state.c.remove(0);
                    }
                    let mut after = ledger(&after_state);
                    after.extend(rec_items.iter().map(tag));
                    after.sort();
                    ctx.rec.count("ledger_items_tracked", before.len() as u64);
                    if before != after {
                        ctx.rec.violation("C19", "LIST.ADD|conservation", &format!("ids {:?}: tagged multiset before {:?} after (stacks + record) {:?}", ids, before, after), "");
                    }
                    if k % 1500 == 0 {
                        ctx.rec.sample("list-add", &format!("ids {:?}: {}  =>  {}", ids, ev.pre.summary(), post.summary()));
                    }
                }
            }
            2 => {
                // ADD (literal stacks only) -> GET -> execute: everything back in place
                let lits = [1, 2, 5, 6, 9, 10];
                let nids = 1 + r.below(6);
                let ids: Vec<i32> = (0..nids).map(|_| *r.pick(&lits)).collect();
                s.e.clear();
                let original = s.clone();
                s.iv.insert(0, ids.clone());
                let mut st = build_state(&s);
                let ev = judged_step("C19", "LIST.ADD", &mut st, &mut is, &cache, &mut ctx.rec, judge, "round trip: add");
                if ev.post.is_none() {
                    continue;
                }
                // a few unrelated records on top, then address ours by position
                let extra = r.below(3);
                for j in 0..extra {
                    st.code_stack.push(SItem::List(vec![SItem::Name(format!("other{}", j))]).to_item());
                }
                st.int_stack.push(extra as i32);
                let after_add = Snap::of(&st);
                let ev2 = judged_step("C19", "LIST.GET", &mut st, &mut is, &cache, &mut ctx.rec, judge, "round trip: get");
                if ev2.post.is_none() {
                    continue;
                }
                let mut steps = 2u64;
                while st.exec_stack.size() > 0 && steps < 100 {
                    let e3 = judged_exec_step("C19", &mut st, &mut is, &cache, &mut ctx.rec, judge, "round trip: execute record");
                    steps += 1;
                    if e3.post.is_none() {
                        break;
                    }
                }
                ctx.rec.count("steps", steps);
                ctx.rec.count("round_trips", 1);
                ctx.rec.set_add("instructions", "LIST.GET");
                let fin = Snap::of(&st);
                let mut want = original.clone();
                // CODE now additionally holds our record (still in place) and the extras
                want.c = after_add.c.clone();
                // the position operand was consumed
                if fin != want {
                    ctx.rec.violation("C19", "LIST.GET|round-trip", &format!("ids {:?}: after ADD, GET and executing the record the stacks are not restored: {}", ids, want.diff_text(&fin)), "");
                }
                ctx.rec.cover(&format!("RT|{}|x{}", nids, extra));
            }
            3 => {
                // SET / REMOVE with clamped positions
                let name = if r.bool() { "LIST.SET" } else { "LIST.REMOVE" };
                let pos = positions(&mut r, s.c.len());
                if name == "LIST.SET" {
                    s.iv.insert(0, id_vector(&mut r));
                }
                s.i.insert(0, pos);
                let mut st = build_state(&s);
                let ev = judged_step("C19", name, &mut st, &mut is, &cache, &mut ctx.rec, judge, &format!("position={}", pos));
                ctx.rec.count("steps", 1);
                ctx.rec.set_add("instructions", name);
                let pc = if pos < 0 { "neg" } else if (pos as usize) < ev.pre.c.len() { "in" } else { "beyond" };
                ctx.rec.cover(&format!("{}|{}|c{}", name, pc, ev.pre.c.len().min(4)));
                if let (Some(post), "LIST.REMOVE") = (&ev.post, name) {
                    // exactly one record gone, order of the others kept
                    if !ev.pre.c.is_empty() && post.c.len() + 1 != ev.pre.c.len() {
                        ctx.rec.violation("C19", "LIST.REMOVE|count", &format!("{} records before, {} after", ev.pre.c.len(), post.c.len()), "");
                    }
                }
            }
            _ => {
                // BVAL / IVAL / FVAL: n-th typed value inside the addressed (possibly nested) item
                let name = *r.pick(&["LIST.BVAL", "LIST.IVAL", "LIST.FVAL"]);
                // make nested records
                let mk = |r: &mut Rng, uniq: &mut i32| -> SItem {
                    let mut v = vec![];
                    for _ in 0..r.below(5) {
                        *uniq += 1;
                        v.push(match r.below(5) {
                            0 => SItem::Bool(r.bool()),
                            1 => SItem::Int(*uniq),
                            2 => SItem::Float(fb(*uniq as f32 + 0.5)),
                            3 => SItem::Name(format!("x{}", uniq)),
                            _ => SItem::List(vec![SItem::Int(*uniq + 500), SItem::Bool(false), SItem::Float(fb(0.125)), SItem::List(vec![SItem::Int(*uniq + 900)])]),
                        });
                    }
                    SItem::List(v)
                };
                s.c = (0..r.below(4)).map(|_| mk(&mut r, &mut uniq)).collect();
                // one case in 30: a record whose values sit under very deep nesting (depth-first counting
                // must not depend on how deep a value lies), with values before and after the deep part
                if r.chance(1, 30) {
                    let d = crate::gen::depth_tail(&mut r);
                    let inner = mk(&mut r, &mut uniq);
                    let deep = crate::gen::deep_wrap(&mut r, inner, d);
                    uniq += 1;
                    s.c.insert(0, SItem::List(vec![SItem::Int(uniq), deep, SItem::Float(fb(uniq as f32 + 0.25)), SItem::Bool(true)]));
                    ctx.rec.max("max_record_nesting", d as u64);
                }
                if r.chance(1, 6) {
                    s.c.insert(0, SItem::Int(4242)); // an atom instead of a record
                }
                let pos = positions(&mut r, s.c.len());
                let nth = *r.pick(&[-1, 0, 0, 1, 1, 2, 3, 5, i32::MAX]);
                s.i.insert(0, pos);
                s.i.insert(0, nth);
                let mut st = build_state(&s);
                let ev = judged_step("C19", name, &mut st, &mut is, &cache, &mut ctx.rec, judge, &format!("position={} n={}", pos, nth));
                ctx.rec.count("steps", 1);
                ctx.rec.set_add("instructions", name);
                let pc = if pos < 0 { "neg" } else if (pos as usize) < ev.pre.c.len() { "in" } else { "beyond" };
                ctx.rec.cover(&format!("{}|{}|n{}|c{}", name, pc, nth.clamp(-1, 6), ev.pre.c.len().min(4)));
                if k % 1500 < 6 {
                    if let Some(p) = &ev.post {
                        ctx.rec.sample("list-val", &format!("{} : {}  =>  {}", name, ev.pre.summary(), p.summary()));
                    }
                }
            }
        }
    }
    ctx.rec.checkpoint();
}
