//! C07 — names: definition, lookup and quoting behave as documented for every type.
//! Random interleavings of push / T.DEFINE / use / NAME.QUOTE / redefinition / CODE.DEFINITION
//! over three names, executed step by step; after EVERY step the whole state (stacks, bindings,
//! quote flag) must equal what the reference rules give, and an independent environment model
//! (map + quote flag) must agree with name_bindings at the end and at every name use.

use crate::dmon::{judged_exec_step, Judge};
use crate::gen::{self, StateOpts, Vals};
use crate::mon::{new_iset, sorted_cache};
use crate::rng::Rng;
use crate::snap::*;
use crate::Ctx;
use std::collections::BTreeMap;

const TYPES: [&str; 8] = ["BOOLEAN", "INTEGER", "FLOAT", "CODE", "EXEC", "BOOLVECTOR", "INTVECTOR", "FLOATVECTOR"];
const NAMES: [&str; 3] = ["a", "b", "c"];

fn value_of(r: &mut Rng, ty: &str, uniq: &mut i32) -> SItem {
    *uniq += 1;
    // one value in four comes from the "print twin" family (same three printed decimals, different
    // value; +0.0 / -0.0): a REdefinition with a twin must replace the binding like any other
    if r.chance(1, 4) {
        match ty {
            "FLOAT" => return SItem::Float(fb(gen::twin_float(r))),
            "FLOATVECTOR" => return SItem::FV(vec![fb(0.25 + *r.pick(&[0.0f32, 0.0004, 0.0001])), fb(0.5 + *r.pick(&[0.0f32, 0.0001]))]),
            "CODE" | "EXEC" => return SItem::List(vec![SItem::Float(fb(gen::twin_float(r))), SItem::Int(7)]),
            "INTVECTOR" => return SItem::IV(vec![7, 8]),
            "BOOLVECTOR" => return SItem::BV(vec![true]),
            "INTEGER" => return SItem::Int(7),
            _ => {}
        }
    }
    match ty {
        "BOOLEAN" => SItem::Bool(r.bool()),
        "INTEGER" => SItem::Int(*uniq),
        "FLOAT" => SItem::Float(fb(*uniq as f32 + 0.5)),
        "BOOLVECTOR" => SItem::BV(vec![r.bool(), *uniq % 2 == 0]),
        "INTVECTOR" => SItem::IV(vec![*uniq, -*uniq]),
        "FLOATVECTOR" => SItem::FV(vec![fb(*uniq as f32)]),
        // CODE / EXEC values: an atom, or a small list that pushes a recognisable integer
        _ => {
            match r.below(5) {
                0 | 1 => SItem::Int(*uniq),
                2 | 3 => SItem::List(vec![SItem::Int(*uniq), SItem::Instr("INTEGER.DUP".into())]),
                // a name bound to a name: using it must look the second name up in turn (chain)
                _ => SItem::Name(NAMES[r.below(3)].into()),
            }
        }
    }
}

pub fn run(ctx: &mut Ctx) {
    let (mut is, names) = new_iset();
    let cache = sorted_cache(&is);
    let judge = Judge { frame: true, reference: true };
    let nseq = ctx.n(12000, 2000000);
    let i = |n: &str| SItem::Instr(n.to_string());
    for k in 0..nseq as u64 {
        if !ctx.mine(k) {
            continue;
        }
        let mut r = Rng::derive(ctx.seed, &[7, k]);
        let mut uniq = 1000;
        let mut prog: Vec<SItem> = vec![];
        let mut kinds: Vec<String> = vec![];
        let len = 3 + r.below(14);
        for _ in 0..len {
            let nm = NAMES[r.below(3)];
            let ty = TYPES[r.below(8)];
            match r.below(8) {
                0 | 1 | 2 => {
                    // define: value, quoted name (so that a bound name reaches the NAME stack), T.DEFINE
                    let v = value_of(&mut r, ty, &mut uniq);
                    match ty {
                        "CODE" => {
                            prog.push(i("CODE.QUOTE"));
                            prog.push(v);
                            prog.push(i("NAME.QUOTE"));
                            prog.push(SItem::Name(nm.into()));
                            prog.push(i("CODE.DEFINE"));
                        }
                        "EXEC" => {
                            prog.push(i("NAME.QUOTE"));
                            prog.push(SItem::Name(nm.into()));
                            prog.push(i("EXEC.DEFINE"));
                            prog.push(v);
                        }
                        _ => {
                            prog.push(v);
                            prog.push(i("NAME.QUOTE"));
                            prog.push(SItem::Name(nm.into()));
                            prog.push(i(&format!("{}.DEFINE", ty)));
                        }
                    }
                    kinds.push(format!("define-{}", ty));
                }
                3 | 4 => {
                    prog.push(SItem::Name(nm.into()));
                    kinds.push("use".into());
                }
                5 => {
                    prog.push(i("NAME.QUOTE"));
                    if r.bool() {
                        // something in between: the flag must survive until the next NAME
                        prog.push(SItem::Int(5));
                        prog.push(i("INTEGER.POP"));
                    }
                    prog.push(SItem::Name(nm.into()));
                    kinds.push("quote-use".into());
                }
                6 => {
                    prog.push(i("NAME.QUOTE"));
                    prog.push(SItem::Name(nm.into()));
                    prog.push(i("CODE.DEFINITION"));
                    kinds.push("definition".into());
                }
                7 if r.bool() => {
                    // a definition executed while the quote flag is pending: NAME.QUOTE must survive it
                    // and still apply to the NEXT name
                    let v = value_of(&mut r, ty, &mut uniq);
                    prog.push(i("NAME.QUOTE"));
                    prog.push(SItem::Name(nm.into()));
                    match ty {
                        "CODE" => {
                            prog.push(i("CODE.QUOTE"));
                            prog.push(v);
                            prog.push(i("NAME.QUOTE"));
                            prog.push(i("CODE.DEFINE"));
                        }
                        "EXEC" => {
                            prog.push(i("NAME.QUOTE"));
                            prog.push(i("EXEC.DEFINE"));
                            prog.push(v);
                        }
                        _ => {
                            prog.push(v);
                            prog.push(i("NAME.QUOTE"));
                            prog.push(i(&format!("{}.DEFINE", ty)));
                        }
                    }
                    prog.push(SItem::Name(NAMES[r.below(3)].into()));
                    kinds.push(format!("define-under-quote-{}", ty));
                }
                _ => {
                    // define without quoting: the name is executed (if bound) instead of reaching NAME
                    let v = value_of(&mut r, "INTEGER", &mut uniq);
                    prog.push(v);
                    prog.push(SItem::Name(nm.into()));
                    prog.push(i("INTEGER.DEFINE"));
                    kinds.push("define-unquoted".into());
                }
            }
        }
        let mut s = if k % 3 == 0 {
            gen::snap(&mut r, &StateOpts { vals: Vals::Small, max_depth: 2, graphs: false, io: false, bindings: false, flags: false, random_cfg: false }, &names)
        } else {
            Snap::empty()
        };
        // initial bindings now and then
        if k % 4 == 1 {
            s.nb.insert("a".into(), SItem::Int(77));
            s.nb.insert("c".into(), SItem::List(vec![SItem::Bool(true)]));
        }
        // one case in 61: a LARGE table of bindings (around powers of two and around every limit
        // written as a literal or shift expression in pushr's source): defining, redefining and
        // looking up must not depend on how many names are bound
        let mut big_table = false;
        if k % 211 == 30 {
            big_table = true;
            let mut c: Vec<usize> = vec![100, 1000, 1023, 1024, 1025, 4095, 4096, 4097, 5000];
            for v in gen::lits().ints.iter() {
                if *v >= 64 && *v <= 5100 {
                    c.push(*v as usize);
                }
            }
            let n = *r.pick(&c);
            for j in 0..n {
                s.nb.insert(format!("v{}", j), SItem::Int(j as i32));
            }
            ctx.rec.max("max_bindings", n as u64);
        }
        s.q = k % 9 == 0;
        s.e = vec![SItem::List(prog.clone())];
        let mut st = build_state(&s);
        // independent environment model
        let mut env: BTreeMap<String, SItem> = s.nb.clone();
        ctx.rec.case_marker(k, "name program");
        let mut steps = 0u64;
        // with a large table every snapshot is large: such programs are cut after 60 steps
        let step_cap = if big_table { 60 } else { 2000 };
        while st.exec_stack.size() > 0 && steps < step_cap {
            let ev = judged_exec_step("C07", &mut st, &mut is, &cache, &mut ctx.rec, judge, "define/use/quote program");
            steps += 1;
            let post = match &ev.post {
                Some(p) => p,
                None => break,
            };
            match &ev.item {
                Some(SItem::Instr(n)) if n.ends_with(".DEFINE") && ev.fired == Some(true) => {
                    // model: top NAME bound to the top item of T
                    let t = n.trim_end_matches(".DEFINE");
                    let nm = ev.pre.n[0].clone();
                    let val = match t {
                        "BOOLEAN" => SItem::Bool(ev.pre.b[0]),
                        "INTEGER" => SItem::Int(ev.pre.i[0]),
                        "FLOAT" => SItem::Float(ev.pre.f[0]),
                        "CODE" => ev.pre.c[0].clone(),
                        "EXEC" => ev.pre.e[0].clone(),
                        "BOOLVECTOR" => SItem::BV(ev.pre.bv[0].clone()),
                        "INTVECTOR" => SItem::IV(ev.pre.iv[0].clone()),
                        _ => SItem::FV(ev.pre.fv[0].clone()),
                    };
                    env.insert(nm, val);
                    ctx.rec.cover(&format!("define|{}|{}", t, ev.pre.nb.contains_key(&ev.pre.n[0])));
                }
                Some(SItem::Name(n)) => {
                    let class = if ev.pre.q {
                        "quoted"
                    } else if env.contains_key(n) {
                        "bound"
                    } else {
                        "unbound"
                    };
                    ctx.rec.cover(&format!("use|{}|{}", class, env.get(n).map(|v| format!("{:?}", std::mem::discriminant(v))).unwrap_or_default()));
                    // the environment model decides where the name must go
                    let ok = match class {
                        "quoted" => post.n.first() == Some(n) && !post.q && post.e == ev.pre.e,
                        "bound" => post.e.first() == env.get(n) && post.n == ev.pre.n,
                        _ => post.n.first() == Some(n) && post.e == ev.pre.e,
                    };
                    if !ok {
                        ctx.rec.violation("C07", &format!("name-use|{}|environment-model", class), &format!("name {} ({}): {} -> {}", n, class, ev.pre.summary(), post.summary()), "");
                    }
                }
                _ => {}
            }
            if post.nb != env {
                ctx.rec.violation("C07", "bindings|environment-model", &format!("name_bindings {} but the environment model has {:?}", post.comp_str(St::Bindings), env), "");
                break;
            }
        }
        ctx.rec.count("steps", steps);
        ctx.rec.count("sequences", 1);
        for kd in kinds.iter() {
            ctx.rec.cover(&format!("event|{}", kd));
        }
        for w in kinds.windows(2) {
            ctx.rec.cover(&format!("pair|{}|{}", w[0], w[1]));
        }
        ctx.rec.cover(&format!("program|{}", kinds.join(">")));
        if k % 600 == 0 {
            ctx.rec.sample("name-program", &format!("{} from {} => {}", SItem::List(prog), s.summary(), Snap::of(&st).summary()));
        }
    }
    ctx.rec.checkpoint();
}
