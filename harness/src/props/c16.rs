//! C16 — the generic stack container behaves like a plain sequence (H monitor).
//! Operation histories over the whole public API against a Vec model (top = last element);
//! exhaustive for short histories, random for long ones; element types i32 and nested Items.

use crate::mon::{guarded, panic_sig};
use crate::rng::Rng;
use crate::snap::SItem;
use crate::Ctx;
use pushr::push::item::Item;
use pushr::push::stack::PushStack;

#[derive(Clone, Debug)]
enum Op {
    Push,
    Pop,
    PushFront,
    PopFront,
    PushVec(usize),
    PopVec(usize),
    CopyVec(usize),
    Get(usize),
    GetMut(usize),
    Copy(usize),
    Replace(usize),
    Remove(usize),
    Yank(usize),
    Shove(usize),
    Reverse,
    Flush,
    LastEq(bool),
    EqualAt(usize, bool),
    BottomMut,
    FromVec(usize),
    /// raw element swap ("Swaps vector elements": indices count from the bottom); only applied in range,
    /// the property's "never fail" clause is about positions of the documented top-based operations
    Swap(usize, usize),
    /// `a.clone_from(&b)` with a `b` of n fresh elements (shorter, equal or longer than a), and `clone()`
    CloneFrom(usize),
}

fn all_ops(maxpos: usize) -> Vec<Op> {
    let mut v = vec![Op::Push, Op::Pop, Op::PushFront, Op::PopFront, Op::Reverse, Op::Flush, Op::LastEq(true), Op::LastEq(false), Op::BottomMut];
    for p in 0..=maxpos {
        v.push(Op::PopVec(p));
        v.push(Op::CopyVec(p));
        v.push(Op::Get(p));
        v.push(Op::GetMut(p));
        v.push(Op::Copy(p));
        v.push(Op::Replace(p));
        v.push(Op::Remove(p));
        v.push(Op::Yank(p));
        v.push(Op::Shove(p));
        v.push(Op::EqualAt(p, true));
        v.push(Op::EqualAt(p, false));
        v.push(Op::Swap(p, 0));
        v.push(Op::Swap(1, p));
    }
    v.push(Op::PushVec(0));
    v.push(Op::PushVec(2));
    v.push(Op::FromVec(0));
    v.push(Op::FromVec(2));
    v.push(Op::CloneFrom(0));
    v.push(Op::CloneFrom(1));
    v.push(Op::CloneFrom(4));
    v
}

/// element abstraction: a unique label -> a concrete element
trait Elem: Clone + std::fmt::Display + PartialEq + pushr::push::stack::PushPrint {
    fn make(label: i32) -> Self;
    fn key(&self) -> String;
    /// what PushStack::last_eq means for this type
    fn last_eq_model(a: &Self, b: &Self) -> bool;
}
impl Elem for i32 {
    fn make(l: i32) -> i32 {
        l
    }
    fn key(&self) -> String {
        self.to_string()
    }
    fn last_eq_model(a: &i32, b: &i32) -> bool {
        a == b
    }
}
impl Elem for Item {
    fn make(l: i32) -> Item {
        // every eighth element comes from a family of PRINT TWINS (same kind, same printed text,
        // different value): replacing one by another must really replace it
        if l % 8 == 6 {
            return Item::float(0.25 + ((l / 8) % 5) as f32 * 0.0001);
        }
        if l % 8 == 5 {
            return Item::list(vec![Item::float(0.123 + ((l / 8) % 4) as f32 * 0.0001), Item::bool(true)]);
        }
        match l % 4 {
            0 => Item::int(l),
            1 => Item::list(vec![Item::int(l), Item::bool(true)]),
            2 => Item::list(vec![Item::list(vec![Item::float(l as f32)]), Item::name(format!("n{}", l))]),
            _ => Item::instruction(format!("I{}", l)),
        }
    }
    fn key(&self) -> String {
        SItem::of(self).to_string()
    }
    fn last_eq_model(a: &Item, b: &Item) -> bool {
        // documented: "Uses the = operator for comparison (shallow for Items)": same kind
        let k = |x: &Item| match SItem::of(x) {
            SItem::List(_) => 0,
            SItem::Instr(_) => 1,
            SItem::Name(_) => 2,
            SItem::Int(_) => 3,
            SItem::Float(_) => 4,
            SItem::Bool(_) => 5,
            _ => 6,
        };
        k(a) == k(b)
    }
}

struct Hist<T: Elem> {
    real: PushStack<T>,
    model: Vec<T>, // top = last
    next: i32,
    /// sparse observation: while set, an op is applied to both sides and only its own return value is compared
    quiet: bool,
}

impl<T: Elem> Hist<T> {
    fn new(init: usize) -> Self {
        let mut h = Hist { real: PushStack::new(), model: vec![], next: 100, quiet: false };
        for _ in 0..init {
            let e: T = h.fresh();
            h.real.push(e.clone());
            h.model.push(e);
        }
        h
    }
    fn fresh(&mut self) -> T {
        self.next += 1;
        T::make(self.next)
    }
    fn keys(v: &[T]) -> Vec<String> {
        v.iter().map(|x| x.key()).collect()
    }

    /// apply one op to both; Err(text) on disagreement
    fn apply(&mut self, op: &Op) -> Result<(), String> {
        let len = self.model.len();
        let at = |i: usize| -> Option<usize> { if i < len { Some(len - 1 - i) } else { None } };
        match op {
            Op::Push => {
                let e = self.fresh();
                self.real.push(e.clone());
                self.model.push(e);
            }
            Op::Pop => {
                let a = self.real.pop().map(|x| x.key());
                let b = self.model.pop().map(|x| x.key());
                if a != b {
                    return Err(format!("pop returned {:?}, model {:?}", a, b));
                }
            }
            Op::PushFront => {
                let e = self.fresh();
                self.real.push_front(e.clone());
                self.model.insert(0, e);
            }
            Op::PopFront => {
                let a = self.real.pop_front().map(|x| x.key());
                let b = if len > 0 { Some(self.model.remove(0).key()) } else { None };
                if a != b {
                    return Err(format!("pop_front returned {:?}, model {:?}", a, b));
                }
            }
            Op::PushVec(n) => {
                // the argument's spare CAPACITY varies (exact, room for everything, much more): the
                // result must depend on the elements only, never on how the vector was allocated
                let extra = [0usize, len + *n, 2 * (len + *n) + 3, 64][(self.next as usize / 3) % 4];
                let mut v: Vec<T> = Vec::with_capacity(*n + extra);
                for _ in 0..*n {
                    let e = self.fresh();
                    v.push(e);
                }
                let copy: Vec<T> = v.iter().cloned().collect();
                self.real.push_vec(v);
                self.model.extend(copy);
            }
            Op::PopVec(n) => {
                let a = self.real.pop_vec(*n).map(|v| Self::keys(&v));
                let b = if *n > len { None } else { Some(Self::keys(&self.model.split_off(len - n))) };
                if a != b {
                    return Err(format!("pop_vec({}) returned {:?}, model {:?}", n, a, b));
                }
            }
            Op::CopyVec(n) => {
                let a = self.real.copy_vec(*n).map(|v| Self::keys(&v));
                let b = if *n > len { None } else { Some(Self::keys(&self.model[len - n..])) };
                if a != b {
                    return Err(format!("copy_vec({}) returned {:?}, model {:?}", n, a, b));
                }
            }
            Op::Get(i) => {
                let a = self.real.get(*i).map(|x| x.key());
                let b = at(*i).map(|k| self.model[k].key());
                if a != b {
                    return Err(format!("get({}) returned {:?}, model {:?}", i, a, b));
                }
            }
            Op::Copy(i) => {
                let a = self.real.copy(*i).map(|x| x.key());
                let b = at(*i).map(|k| self.model[k].key());
                if a != b {
                    return Err(format!("copy({}) returned {:?}, model {:?}", i, a, b));
                }
            }
            Op::GetMut(i) => {
                let e = self.fresh();
                let a = match self.real.get_mut(*i) {
                    Some(slot) => {
                        let old = slot.key();
                        *slot = e.clone();
                        Some(old)
                    }
                    None => None,
                };
                let b = at(*i).map(|k| {
                    let old = self.model[k].key();
                    self.model[k] = e.clone();
                    old
                });
                if a != b {
                    return Err(format!("get_mut({}) gave {:?}, model {:?}", i, a, b));
                }
            }
            Op::Replace(i) => {
                let e = self.fresh();
                let a = self.real.replace(*i, e.clone());
                let b = match at(*i) {
                    Some(k) => {
                        self.model[k] = e;
                        Ok(())
                    }
                    // documented: the offset to the size of the stack (saturating at the type's maximum)
                    None => Err((i - len).saturating_add(1)),
                };
                if a != b {
                    return Err(format!("replace({}) returned {:?}, model {:?}", i, a, b));
                }
            }
            Op::Remove(i) => {
                self.real.remove(*i);
                if let Some(k) = at(*i) {
                    self.model.remove(k);
                }
            }
            Op::Yank(i) => {
                self.real.yank(*i);
                if let Some(k) = at(*i) {
                    let e = self.model.remove(k);
                    self.model.push(e);
                }
            }
            Op::Shove(i) => {
                self.real.shove(*i);
                if at(*i).is_some() {
                    let e = self.model.pop().unwrap();
                    let pos = self.model.len() - i;
                    self.model.insert(pos, e);
                }
            }
            Op::Reverse => {
                self.real.reverse();
                self.model.reverse();
            }
            Op::Flush => {
                self.real.flush();
                self.model.clear();
            }
            Op::LastEq(same) => {
                let probe = if *same && len > 0 { self.model[len - 1].clone() } else { self.fresh() };
                let a = self.real.last_eq(&probe);
                let b = len > 0 && T::last_eq_model(&probe, &self.model[len - 1]);
                if a != b {
                    return Err(format!("last_eq({}) returned {}, model {}", probe.key(), a, b));
                }
            }
            Op::EqualAt(i, same) => {
                let probe = match (at(*i), *same) {
                    (Some(k), true) => self.model[k].clone(),
                    _ => self.fresh(),
                };
                let a = self.real.equal_at(*i, &probe);
                let b = at(*i).map(|k| self.model[k].to_string() == probe.to_string());
                if a != b {
                    return Err(format!("equal_at({}, {}) returned {:?}, model {:?}", i, probe.key(), a, b));
                }
            }
            Op::BottomMut => {
                let e = self.fresh();
                let a = match self.real.bottom_mut() {
                    Some(slot) => {
                        let old = slot.key();
                        *slot = e.clone();
                        Some(old)
                    }
                    None => None,
                };
                let b = if len > 0 {
                    let old = self.model[0].key();
                    self.model[0] = e;
                    Some(old)
                } else {
                    None
                };
                if a != b {
                    return Err(format!("bottom_mut gave {:?}, model {:?}", a, b));
                }
            }
            Op::Swap(i, j) => {
                if *i < len && *j < len {
                    self.real.swap(*i, *j);
                    self.model.swap(*i, *j);
                }
            }
            Op::CloneFrom(n) => {
                let v: Vec<T> = (0..*n).map(|_| self.fresh()).collect();
                let other = PushStack::from_vec(v.clone());
                self.real.clone_from(&other);
                self.model = v;
                // and a clone is an independent equal copy
                let mut c = self.real.clone();
                let e = self.fresh();
                c.push(e);
                if c.size() != self.model.len() + 1 || self.real.size() != self.model.len() {
                    return Err(format!("clone() is not an independent copy: clone has {} items, original {}, model {}", c.size(), self.real.size(), self.model.len()));
                }
            }
            Op::FromVec(n) => {
                let extra = [0usize, 5, 64][(self.next as usize / 3) % 3];
                let mut v: Vec<T> = Vec::with_capacity(*n + extra);
                for _ in 0..*n {
                    let e = self.fresh();
                    v.push(e);
                }
                let copy: Vec<T> = v.iter().cloned().collect();
                self.real = PushStack::from_vec(v);
                self.model = copy;
            }
        }
        if self.quiet {
            return Ok(());
        }
        // full observation after the op
        if self.real.size() != self.model.len() {
            return Err(format!("size {} but model has {}", self.real.size(), self.model.len()));
        }
        let all = self.real.copy_vec(self.real.size()).map(|v| Self::keys(&v));
        if all != Some(Self::keys(&self.model)) {
            return Err(format!("contents {:?} but model {:?}", all, Self::keys(&self.model)));
        }
        let printed = self.real.to_string();
        let want = self.model.iter().rev().map(|x| x.to_pstring()).collect::<Vec<_>>().join(" ");
        if printed != want.trim() {
            return Err(format!("to_string {:?} but top-first listing is {:?}", printed, want));
        }
        Ok(())
    }
}

fn run_history<T: Elem>(ctx: &mut Ctx, init: usize, ops: &[Op], tyname: &str) {
    let mut h: Hist<T> = Hist::new(init);
    for (k, op) in ops.iter().enumerate() {
        let before = Hist::<T>::keys(&h.model);
        let r = guarded(|| h.apply(op));
        ctx.rec.count("ops", 1);
        let opname = format!("{:?}", op);
        let opkind = opname.split('(').next().unwrap_or("").to_string();
        let posclass = match op {
            Op::PopVec(p) | Op::CopyVec(p) | Op::Get(p) | Op::GetMut(p) | Op::Copy(p) | Op::Replace(p) | Op::Remove(p) | Op::Yank(p) | Op::Shove(p) | Op::EqualAt(p, _) => {
                if *p < before.len() {
                    "in"
                } else if *p == before.len() {
                    "eq-len"
                } else {
                    "beyond"
                }
            }
            _ => "-",
        };
        if posclass != "in" && posclass != "-" {
            ctx.rec.count("positions_probed_at_or_beyond_len", 1);
        }
        ctx.rec.cover(&format!("{}|{}|{}|len{}", tyname, opkind, posclass, before.len().min(6)));
        match r {
            Ok(Ok(())) => {}
            Ok(Err(t)) => {
                ctx.rec.violation("C16", &format!("PushStack<{}>::{}|mismatch", tyname, opkind), &format!("{} ; op #{} {:?} on (bottom..top) {:?} ; history {:?}", t, k, op, before, &ops[..=k]), "");
                return;
            }
            Err(p) => {
                ctx.rec.violation("C16", &format!("PushStack<{}>::{}|panic|{}", tyname, opkind, panic_sig(&p)), &format!("{} ; op #{} {:?} on {:?} ; history {:?}", p, k, op, before, &ops[..=k]), "");
                return;
            }
        }
    }
    ctx.rec.count("histories", 1);
}

/// small workload for the undefined-behaviour interpreter (Miri): all histories of length 2 over a
/// reduced alphabet plus two random histories
fn run_miri(ctx: &mut Ctx) {
    let ops = all_ops(2);
    for a in ops.iter() {
        for b in ops.iter().step_by(3) {
            run_history::<i32>(ctx, 2, &[a.clone(), b.clone()], "i32");
        }
    }
    for j in 0..2u64 {
        let mut r = Rng::derive(ctx.seed, &[16, 1, j]);
        let big = all_ops(6);
        let h: Vec<Op> = (0..80).map(|_| if r.chance(1, 3) { Op::Push } else { r.pick(&big).clone() }).collect();
        if j == 0 {
            run_history::<i32>(ctx, 0, &h, "i32");
        } else {
            run_history::<Item>(ctx, 0, &h, "Item");
        }
    }
    ctx.rec.sample("miri", "all histories of length 2 over 35 op instances from a 2-element stack + 2 random histories of 80 ops");
}

pub fn run(ctx: &mut Ctx) {
    if ctx.mode == "miri" {
        run_miri(ctx);
        ctx.rec.checkpoint();
        return;
    }
    let mut case: u64 = 0;
    // exhaustive: all histories of length <= K from the empty stack and from a 3-element stack
    // fuzz mode: the exhaustive part is skipped (the tape drives the random histories only)
    let k = if ctx.is_fuzz() { 0 } else { ctx.n(3, 4) };
    let ops = all_ops(5);
    let nops = ops.len() as u64;
    let mut space: u64 = 0;
    for init in [0usize, 3] {
        for len in 1..=k {
            let total = nops.pow(len as u32);
            for code in 0..total {
                case += 1;
                space += 1;
                if !ctx.mine(case) {
                    continue;
                }
                let mut c = code;
                let mut h = Vec::with_capacity(len);
                for _ in 0..len {
                    h.push(ops[(c % nops) as usize].clone());
                    c /= nops;
                }
                ctx.rec.case_marker_throttled(case, "exhaustive history", 256);
                if case % 5 == 0 && len == k {
                    run_history::<Item>(ctx, init, &h, "Item");
                } else {
                    run_history::<i32>(ctx, init, &h, "i32");
                }
                if code == total / 3 && len == k {
                    ctx.rec.sample("exhaustive-history", &format!("from {} elements: {:?}", init, h));
                }
            }
        }
    }
    ctx.rec.note("exhaustive_space", &space.to_string());
    // random long histories
    let nr = ctx.n(2000, 60000);
    let big = all_ops(9);
    for j in 0..nr as u64 {
        case += 1;
        if !ctx.mine(case) {
            continue;
        }
        let mut r = Rng::derive(ctx.seed, &[16, j]);
        let mut h = vec![];
        for _ in 0..(if ctx.is_fuzz() { 60 } else { 300 }) {
            // bias toward growth so that deep positions are reached
            if r.chance(1, 2) {
                h.push(if r.bool() { Op::Push } else { Op::PushVec(2) });
            } else {
                let mut op = r.pick(&big).clone();
                // half of the positional operations address deep / far positions
                if r.bool() {
                    // ... and one in ten a position far beyond anything a stack can hold (2^31, 2^32+k,
                    // usize::MAX): out of range like len+1, and to be reported as absent just the same
                    let far = if r.chance(1, 10) { *r.pick(&[usize::MAX, usize::MAX - 1, usize::MAX / 2 + 1, 1usize << 31, (1usize << 31) - 1, (1usize << 32) + 3, (1usize << 32) - 1, 1usize << 63]) } else { r.below(130) };
                    op = match op {
                        Op::PopVec(_) => Op::PopVec(far),
                        Op::CopyVec(_) => Op::CopyVec(far),
                        Op::Get(_) => Op::Get(far),
                        Op::GetMut(_) => Op::GetMut(far),
                        Op::Copy(_) => Op::Copy(far),
                        Op::Replace(_) => Op::Replace(far),
                        Op::Remove(_) => Op::Remove(far),
                        Op::Yank(_) => Op::Yank(far),
                        Op::Shove(_) => Op::Shove(far),
                        Op::EqualAt(_, b) => Op::EqualAt(far, b),
                        o => o,
                    };
                }
                h.push(op);
            }
        }
        ctx.rec.case_marker(case, "random history");
        if j % 2 == 0 {
            run_history::<i32>(ctx, 0, &h, "i32");
        } else {
            run_history::<Item>(ctx, 0, &h, "Item");
        }
        if j == 0 {
            ctx.rec.sample("random-history", &format!("{:?}", &h[..40]));
        }
    }
    // sparse observation: read everything once, apply EXACTLY W operations without reading the stack back (only the
    // ops' own return values are compared), read everything again. A size / printout cached under a narrow
    // revision counter is stale only if a multiple of 2^8 / 2^16 operations lies between two reads, and a monitor
    // that reads after every operation refreshes it every time.
    // (every stretch length up to 600 as well, for 8-bit counters that advance more than once per operation)
    let mut widths: Vec<usize> = if ctx.is_fuzz() { vec![] } else { vec![65535, 65536, 65537, 131072] }; // not tape-driven: skipped under the fuzzer
    if !ctx.is_fuzz() {
        widths.extend(1..=600usize);
    }
    for (wi, w) in widths.iter().enumerate() {
        for variant in 0..4u64 {
            case += 1;
            if !ctx.mine(case) {
                continue;
            }
            fn stretch<T: Elem>(r: &mut Rng, w: usize, variant: u64, alphabet: &[Op]) -> Result<(), String> {
                let mut h: Hist<T> = Hist::new(3);
                h.apply(&Op::Get(0))?; // full read
                h.quiet = true;
                for j in 0..w {
                    let op = if variant < 2 {
                        // pure mutators, net growth: pushes and pops 2 : 1 (every one changes the stack)
                        if j % 3 == 2 { Op::Pop } else { Op::Push }
                    } else {
                        let o = r.pick(alphabet).clone();
                        // keep the stretch cheap: no bulk rebuilds
                        if matches!(o, Op::FromVec(_) | Op::CloneFrom(_) | Op::PushVec(_) | Op::Flush) { Op::Push } else { o }
                    };
                    h.apply(&op)?;
                }
                h.quiet = false;
                h.apply(&Op::Get(0)) // full read again
            }
            let mut r = Rng::derive(ctx.seed, &[16, 99, wi as u64, variant]);
            let alphabet = all_ops(5);
            ctx.rec.case_marker(case, "sparse observation");
            let (res, ty) = if variant % 2 == 0 { (guarded(|| stretch::<i32>(&mut r, *w, variant, &alphabet)), "i32") } else { (guarded(|| stretch::<Item>(&mut r, *w, variant, &alphabet)), "Item") };
            ctx.rec.count("ops", *w as u64 + 2);
            ctx.rec.count("sparse_observation_stretches", 1);
            ctx.rec.max("sparse_observation_longest_unobserved_stretch", *w as u64);
            ctx.rec.cover(&format!("sparse|{}|W{}|v{}", ty, if *w <= 600 { (*w / 100) * 100 } else { *w }, variant));
            match res {
                Ok(Ok(())) => {}
                Ok(Err(t)) => ctx.rec.violation("C16", &format!("PushStack<{}>|sparse-observation|mismatch", ty), &format!("{} ; read, then {} unobserved operations (variant {}), then read again", t.chars().take(600).collect::<String>(), w, variant), ""),
                Err(p) => ctx.rec.violation("C16", &format!("PushStack<{}>|sparse-observation|panic|{}", ty, panic_sig(&p)), &p, ""),
            }
        }
    }
    ctx.rec.checkpoint();
    // huge stacks (thousands of elements): thresholds, caps and fast paths only show there
    let nh = ctx.n(24, 200);
    for j in 0..nh as u64 {
        case += 1;
        if !ctx.mine(case) {
            continue;
        }
        let mut r = Rng::derive(ctx.seed, &[16, 88, j]);
        let n0 = *r.pick(&[70usize, 130, 260, 1100, 2100, 4200]);
        let mut h = vec![if r.bool() { Op::FromVec(n0) } else { Op::PushVec(n0) }];
        for _ in 0..30 {
            let far = match r.below(4) {
                0 => n0 - 1,
                1 => n0,
                2 => r.below(n0),
                _ => r.below(80),
            };
            h.push(match r.below(12) {
                0 => Op::Yank(far),
                1 => Op::Shove(far),
                2 => Op::Remove(far),
                3 => Op::Replace(far),
                4 => Op::Get(far),
                5 => Op::CopyVec(far),
                6 => Op::PopVec(r.below(40)),
                7 => Op::EqualAt(far, r.bool()),
                8 => Op::Push,
                9 => Op::GetMut(far),
                10 => Op::Copy(far),
                _ => Op::Reverse,
            });
        }
        ctx.rec.case_marker(case, "huge history");
        if j % 3 == 0 {
            run_history::<Item>(ctx, 0, &h, "Item");
        } else {
            run_history::<i32>(ctx, 0, &h, "i32");
        }
        ctx.rec.count("huge_histories", 1);
    }
    ctx.rec.checkpoint();
}
