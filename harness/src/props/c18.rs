//! C18 — graph memory keeps its structure consistent and answers queries correctly.
//! H monitor: Graph API histories against a set-based model keyed by the ids the real code
//! returned (exhaustive for short histories on <= 3 nodes, random beyond), snapshot independence,
//! diff; D monitor: GRAPH.* instruction histories with valid / stale / never-issued ids.

use crate::dmon::{judged_step, Judge};
use crate::gen::{self, Vals};
use crate::mon::{guarded, new_iset, panic_sig, sorted_cache};
use crate::rng::Rng;
use crate::snap::*;
use crate::Ctx;
use pushr::push::graph::Graph;
use pushr::push::state::PushState;
use std::collections::{BTreeMap, BTreeSet};

#[derive(Clone, Debug)]
enum Op {
    AddNode(i32),
    RemoveNode(usize),       // slot
    AddEdge(usize, usize, i32), // slots, weight label
    RemoveEdge(usize, usize),
    SetState(usize, i32),
    SetWeight(usize, usize, i32),
    /// set the weight to the next representable float above the current one
    NudgeWeight(usize, usize),
    /// remove an existing edge and add it again with the SAME weight: the graph is the same graph again
    /// (only the order inside the adjacency lists may differ), every earlier equal snapshot must still be equal
    ReAddEdge(usize, usize),
    Snapshot,
}

/// weight labels: 100 / 101 / 102 are +0.0 / -0.0 / the smallest positive float (values that compare
/// equal, or almost, and are different weights); other labels are label + offset
fn weight_of(label: i32, offset: f32) -> f32 {
    match label {
        100 => 0.0,
        101 => -0.0,
        102 => f32::from_bits(1),
        _ => label as f32 + offset,
    }
}

#[derive(Clone, Default, PartialEq, Debug)]
struct Model {
    nodes: BTreeMap<usize, i32>,
    edges: BTreeMap<(usize, usize), u32>, // (origin, dest) -> weight bits
}

impl Model {
    fn sgraph(&self) -> SGraph {
        let mut g = SGraph::default();
        g.nodes = self.nodes.iter().map(|(k, v)| (*k, *v)).collect();
        g.edges = self.edges.iter().map(|((o, d), w)| (*d, *o, *w)).collect();
        g.edges.sort();
        g
    }
}

struct H {
    real: Graph,
    model: Model,
    /// every id ever issued in this history, by slot (stale ids stay addressable)
    slots: Vec<usize>,
    snaps: Vec<(Graph, Model)>,
    all_ids: BTreeSet<usize>,
}

const BOGUS: [usize; 3] = [0, usize::MAX, 4_000_000_000];

impl H {
    fn new() -> H {
        H { real: Graph::new(), model: Model::default(), slots: vec![], snaps: vec![], all_ids: BTreeSet::new() }
    }
    fn id(&self, slot: usize) -> usize {
        if slot < self.slots.len() {
            self.slots[slot]
        } else {
            BOGUS[slot % 3]
        }
    }
    fn apply(&mut self, op: &Op) -> Result<(), String> {
        self.apply_quiet(op)?;
        self.observe()
    }

    /// the operation on the real graph and on the model WITHOUT reading anything back (sparse observation:
    /// a value cached at the last read and invalidated by a counter must survive long unobserved stretches)
    fn apply_quiet(&mut self, op: &Op) -> Result<(), String> {
        match op {
            Op::AddNode(st) => {
                let id = self.real.add_node(*st);
                if id == 0 || !self.all_ids.insert(id) {
                    return Err(format!("add_node returned id {} which is not fresh", id));
                }
                self.slots.push(id);
                self.model.nodes.insert(id, *st);
            }
            Op::RemoveNode(s) => {
                let id = self.id(*s);
                self.real.remove_node(id);
                if self.model.nodes.remove(&id).is_some() {
                    self.model.edges.retain(|(o, d), _| *o != id && *d != id);
                }
            }
            Op::AddEdge(a, b, w) => {
                let (o, d) = (self.id(*a), self.id(*b));
                let wf = weight_of(*w, 0.5);
                self.real.add_edge(o, d, wf);
                if self.model.nodes.contains_key(&o) && self.model.nodes.contains_key(&d) {
                    self.model.edges.entry((o, d)).or_insert(fb(wf));
                }
            }
            Op::RemoveEdge(a, b) => {
                let (o, d) = (self.id(*a), self.id(*b));
                self.real.remove_edge(o, d);
                self.model.edges.remove(&(o, d));
            }
            Op::SetState(a, st) => {
                let id = self.id(*a);
                self.real.set_state(&id, *st);
                if let Some(s) = self.model.nodes.get_mut(&id) {
                    *s = *st;
                }
            }
            Op::SetWeight(a, b, w) => {
                let (o, d) = (self.id(*a), self.id(*b));
                let wf = weight_of(*w, 0.25);
                self.real.set_weight(&o, &d, wf);
                if let Some(x) = self.model.edges.get_mut(&(o, d)) {
                    *x = fb(wf);
                }
            }
            Op::NudgeWeight(a, b) => {
                let (o, d) = (self.id(*a), self.id(*b));
                if let Some(x) = self.model.edges.get_mut(&(o, d)) {
                    let cur = fl(*x);
                    let next = f32::from_bits(if cur >= 0.0 { cur.to_bits() + 1 } else { cur.to_bits() - 1 });
                    self.real.set_weight(&o, &d, next);
                    *x = fb(next);
                } else {
                    self.real.set_weight(&o, &d, 1.0);
                }
            }
            Op::ReAddEdge(a, b) => {
                let (o, d) = (self.id(*a), self.id(*b));
                if let Some(w) = self.model.edges.get(&(o, d)).copied() {
                    self.real.remove_edge(o, d);
                    self.real.add_edge(o, d, fl(w));
                }
            }
            Op::Snapshot => {
                if self.snaps.len() >= 3 {
                    self.snaps.remove(1); // keep the first and the two most recent
                }
                self.snaps.push((self.real.clone(), self.model.clone()));
            }
        }
        Ok(())
    }

    fn observe(&self) -> Result<(), String> {
        let sg = SGraph::of(&self.real);
        let mg = self.model.sgraph();
        if sg != mg {
            return Err(format!("structure {} but the set model is {}", sg, mg));
        }
        // explicit structural invariants on the pub maps
        for (d, o, _) in &sg.edges {
            if !sg.has_node(*d) || !sg.has_node(*o) {
                return Err(format!("dangling edge {}->{} in {}", o, d, sg));
            }
        }
        let mut pairs = BTreeSet::new();
        for (d, o, _) in &sg.edges {
            if !pairs.insert((*o, *d)) {
                return Err(format!("two edges for the ordered pair {}->{}", o, d));
            }
        }
        if self.real.node_size() != self.model.nodes.len() || self.real.edge_size() != self.model.edges.len() {
            return Err(format!("node_size/edge_size = {}/{} but model has {}/{}", self.real.node_size(), self.real.edge_size(), self.model.nodes.len(), self.model.edges.len()));
        }
        // getters on every known and bogus id
        let mut ids: Vec<usize> = self.slots.clone();
        ids.extend(BOGUS);
        for a in &ids {
            if self.real.get_state(a) != self.model.nodes.get(a).copied() {
                return Err(format!("get_state({}) = {:?} but model {:?}", a, self.real.get_state(a), self.model.nodes.get(a)));
            }
            for b in &ids {
                let w = self.real.get_weight(a, b).map(fb);
                if w != self.model.edges.get(&(*a, *b)).copied() {
                    return Err(format!("get_weight({},{}) = {:?} but model {:?}", a, b, w.map(fl), self.model.edges.get(&(*a, *b)).map(|x| fl(*x))));
                }
            }
        }
        // filter
        let states: BTreeSet<i32> = self.model.nodes.values().copied().collect();
        let mut filters: Vec<Vec<i32>> = vec![vec![], vec![12345]];
        for s in states.iter().take(3) {
            filters.push(vec![*s]);
            filters.push(vec![*s, 12345]);
        }
        for f in filters {
            let mut got: Vec<i32> = self.real.filter(&f);
            got.sort();
            got.dedup();
            let want: Vec<i32> = self.model.nodes.iter().filter(|(_, s)| f.is_empty() || f.contains(s)).map(|(k, _)| *k as i32).collect();
            if got != want {
                return Err(format!("filter({:?}) = {:?} but model {:?}", f, got, want));
            }
        }
        // snapshots are independent of later changes; diff is None exactly when equal
        for (k, (g, m)) in self.snaps.iter().enumerate() {
            if SGraph::of(g) != m.sgraph() {
                return Err(format!("snapshot #{} changed after it was taken: now {} but it was {}", k, SGraph::of(g), m.sgraph()));
            }
            let d = g.diff(&self.real);
            let same = *m == self.model;
            // +0.0 and -0.0 are the same number: a pair of graphs that differs only in the sign of a zero
            // weight is a don't-care for the textual diff (the stored weight itself is still compared exactly)
            let zero_signs_only = !same
                && m.nodes == self.model.nodes
                && m.edges.len() == self.model.edges.len()
                && m.edges.iter().zip(self.model.edges.iter()).all(|((ka, wa), (kb, wb))| ka == kb && (wa == wb || (fl(*wa) == 0.0 && fl(*wb) == 0.0)));
            if zero_signs_only {
                continue;
            }
            if d.is_none() != same {
                return Err(format!("diff(snapshot #{}, current) is {:?} but the models are {}", k, d, if same { "equal" } else { "different" }));
            }
            let d2 = self.real.diff(g);
            if d2.is_none() != same {
                return Err(format!("diff(current, snapshot #{}) is {:?} but the models are {}", k, d2, if same { "equal" } else { "different" }));
            }
        }
        Ok(())
    }
}

fn op_alphabet(nslots: usize) -> Vec<Op> {
    let mut v = vec![Op::AddNode(1), Op::AddNode(2), Op::Snapshot];
    for a in 0..=nslots {
        v.push(Op::RemoveNode(a));
        v.push(Op::SetState(a, 7));
        for b in 0..=nslots {
            v.push(Op::AddEdge(a, b, 1));
            v.push(Op::RemoveEdge(a, b));
            v.push(Op::SetWeight(a, b, 5));
            if a <= 1 && b <= 1 {
                v.push(Op::NudgeWeight(a, b));
            }
        }
    }
    v
}

fn run_hist(ctx: &mut Ctx, ops: &[Op]) {
    let mut h = H::new();
    for (k, op) in ops.iter().enumerate() {
        let r = guarded(|| h.apply(op));
        ctx.rec.count("api_ops", 1);
        let kind = format!("{:?}", op).split('(').next().unwrap_or("").to_string();
        let stale = match op {
            Op::RemoveNode(a) | Op::SetState(a, _) => {
                if *a >= h.slots.len() {
                    "bogus"
                } else if h.model.nodes.contains_key(&h.slots[*a]) {
                    "valid"
                } else {
                    "stale"
                }
            }
            _ => "-",
        };
        if stale == "stale" || stale == "bogus" {
            ctx.rec.count("stale_or_bogus_id_probes", 1);
        }
        ctx.rec.cover(&format!("api|{}|{}|n{}e{}s{}", kind, stale, h.model.nodes.len().min(5), h.model.edges.len().min(6), h.snaps.len().min(2)));
        match r {
            Ok(Ok(())) => {}
            Ok(Err(t)) => {
                ctx.rec.violation("C18", &format!("Graph::{}|mismatch", kind), &format!("{} ; after op #{} {:?} ; history {:?}", t, k, op, &ops[..=k.min(30)]), "");
                return;
            }
            Err(p) => {
                ctx.rec.violation("C18", &format!("Graph::{}|panic|{}", kind, panic_sig(&p)), &format!("{} ; op #{} {:?} ; history {:?}", p, k, op, &ops[..=k.min(30)]), "");
                return;
            }
        }
    }
    ctx.rec.count("histories", 1);
    ctx.rec.count("snapshots_verified", h.snaps.len() as u64);
}

const GRAPH_INSTR: [&str; 19] = [
    "GRAPH.ADD",
    "GRAPH.DUP",
    "GRAPH.NODE*ADD",
    "GRAPH.NODE*GETSTATE",
    "GRAPH.NODE*HISTORY",
    "GRAPH.NODE*SETSTATE",
    "GRAPH.NODE*NEIGHBORS",
    "GRAPH.NODE*PREDECESSORS",
    "GRAPH.NODE*SUCCESSORS",
    "GRAPH.NODE*STATESWITCH",
    "GRAPH.NODES",
    "GRAPH.NODES*HISTORY",
    "GRAPH.STACKDEPTH",
    "GRAPH.PRINT",
    "GRAPH.PRINT*DIFF",
    "GRAPH.EDGE*ADD",
    "GRAPH.EDGE*HISTORY",
    "GRAPH.EDGE*GETWEIGHT",
    "GRAPH.EDGE*SETWEIGHT",
];

fn pick_id(r: &mut Rng, st: &PushState, issued: &[i32]) -> i32 {
    let live: Vec<i32> = if st.graph_stack.size() > 0 { st.graph_stack.get(0).unwrap().nodes.keys().map(|k| *k as i32).collect() } else { vec![] };
    match r.below(10) {
        0 => *r.pick(&[0, -1, i32::MIN, i32::MAX]),
        1 | 2 if !issued.is_empty() => *r.pick(issued), // possibly stale
        // relatives of a live id: its negation and its neighbours (an id operand is a position in
        // nobody's list: -id, id+1, id-1 name no node unless they happen to be live themselves)
        3 if !live.is_empty() => {
            let id = *r.pick(&live);
            *r.pick(&[-id, id + 1, id - 1, id.wrapping_add(i32::MIN)])
        }
        _ if !live.is_empty() => *r.pick(&live),
        _ => 1 + r.below(50) as i32,
    }
}

fn instr_part(ctx: &mut Ctx) {
    let (mut is, names) = new_iset();
    let cache = sorted_cache(&is);
    let judge = Judge { frame: true, reference: true };
    let nseq = ctx.n(5000, 150000);
    for j in 0..nseq as u64 {
        if !ctx.mine(j) {
            continue;
        }
        let mut r = Rng::derive(ctx.seed, &[18, j]);
        let mut st = PushState::new();
        let mut issued: Vec<i32> = vec![];
        let len = 20 + r.below(40);
        // one sequence in 12 first fills the graph stack to (beyond) its capacity of 100
        let prefill = if j % 12 == 11 { 97 + r.below(8) } else { 0 };
        for pf in 0..prefill {
            st.exec_stack.push(pushr::push::item::Item::instruction(if pf == 0 { "GRAPH.ADD".to_string() } else { "GRAPH.DUP".to_string() }));
            if pf == 1 {
                st.int_stack.push(1);
                st.exec_stack.push(pushr::push::item::Item::instruction("GRAPH.NODE*ADD".to_string()));
            }
            while st.exec_stack.size() > 0 {
                pushr::push::interpreter::PushInterpreter::step(&mut st, &mut is, &cache);
            }
        }
        for step in 0..len {
            // steer: graphs and nodes first, queries later
            let name = if step < 2 && prefill == 0 {
                "GRAPH.ADD"
            } else if step < 8 && r.chance(2, 3) {
                *r.pick(&["GRAPH.NODE*ADD", "GRAPH.NODE*ADD", "GRAPH.EDGE*ADD", "GRAPH.DUP"])
            } else {
                *r.pick(&GRAPH_INSTR)
            };
            // operands (documented order), with hostile variants
            let gs = st.graph_stack.size() as i32;
            let depth_opts = [-1, 0, 0, 1, 1, 2, 3, gs, gs - 1, gs / 2, i32::MAX];
            match name {
                "GRAPH.NODE*ADD" => st.int_stack.push(if r.bool() { r.range(0, 3) as i32 } else { gen::int(&mut r, Vals::Mixed) }),
                "GRAPH.NODE*GETSTATE" => {
                    let id = pick_id(&mut r, &st, &issued);
                    st.int_stack.push(id)
                }
                "GRAPH.NODE*SETSTATE" => {
                    let id = pick_id(&mut r, &st, &issued);
                    st.int_stack.push(id);
                    st.int_stack.push(r.range(0, 3) as i32);
                }
                "GRAPH.NODE*HISTORY" => {
                    let id = pick_id(&mut r, &st, &issued);
                    st.int_stack.push(id);
                    st.int_stack.push(*r.pick(&depth_opts));
                }
                "GRAPH.NODE*NEIGHBORS" | "GRAPH.NODE*PREDECESSORS" | "GRAPH.NODE*SUCCESSORS" => {
                    let id = pick_id(&mut r, &st, &issued);
                    st.int_stack.push(id);
                    let f = if r.bool() { vec![] } else { (0..r.below(3)).map(|_| r.range(0, 3) as i32).collect() };
                    st.int_vector_stack.push(pushr::push::vector::IntVector::new(f));
                }
                "GRAPH.NODES" | "GRAPH.NODES*HISTORY" => {
                    let f = if r.bool() { vec![] } else { (0..r.below(3)).map(|_| r.range(0, 3) as i32).collect() };
                    st.int_vector_stack.push(pushr::push::vector::IntVector::new(f));
                    if name == "GRAPH.NODES*HISTORY" {
                        st.int_stack.push(*r.pick(&depth_opts));
                    }
                }
                "GRAPH.NODE*STATESWITCH" => {
                    let n = r.below(5);
                    let ids: Vec<i32> = (0..n).map(|_| pick_id(&mut r, &st, &issued)).collect();
                    st.int_vector_stack.push(pushr::push::vector::IntVector::new(ids));
                    let m = r.below(5);
                    st.bool_vector_stack.push(pushr::push::vector::BoolVector::new((0..m).map(|_| r.bool()).collect()));
                    st.int_stack.push(r.range(0, 3) as i32);
                    st.int_stack.push(r.range(4, 6) as i32);
                }
                "GRAPH.EDGE*ADD" | "GRAPH.EDGE*SETWEIGHT" | "GRAPH.EDGE*GETWEIGHT" | "GRAPH.EDGE*HISTORY" => {
                    let o = pick_id(&mut r, &st, &issued);
                    let d = pick_id(&mut r, &st, &issued);
                    st.int_stack.push(o);
                    st.int_stack.push(d);
                    if name == "GRAPH.EDGE*HISTORY" {
                        st.int_stack.push(*r.pick(&depth_opts));
                    }
                    if name == "GRAPH.EDGE*ADD" || name == "GRAPH.EDGE*SETWEIGHT" {
                        // weights: grid values, NaN, and the zero-like family (+0.0, -0.0, smallest positive) and print twins
                        st.float_stack.push(match r.below(12) {
                            0 => f32::NAN,
                            1 | 2 => *r.pick(&[0.0f32, -0.0, f32::from_bits(1)]),
                            3 => gen::twin_float(&mut r),
                            _ => gen::grid_float(&mut r),
                        });
                    }
                }
                _ => {}
            }
            // now and then strip an operand stack: missing arguments
            if r.chance(1, 25) {
                st.int_stack.flush();
            }
            ctx.rec.case_marker(j, name);
            let ev = judged_step("C18", name, &mut st, &mut is, &cache, &mut ctx.rec, judge, &format!("sequence {} step {}", j, step));
            ctx.rec.count("instr_steps", 1);
            ctx.rec.set_add("instructions", name);
            ctx.rec.cover(&format!("{}|g{}|n{}|fired{:?}", name, if ev.pre.g.len() >= 99 { 99 } else { ev.pre.g.len().min(4) }, ev.pre.g.get(0).map(|g| g.nodes.len().min(4)).unwrap_or(9), ev.fired));
            let post = match &ev.post {
                Some(p) => p,
                None => break,
            };
            if name == "GRAPH.NODE*ADD" && ev.fired == Some(true) {
                if let Some(id) = post.i.get(0) {
                    issued.push(*id);
                }
            }
            // snapshots below the top are bit-identical to what they were before this step
            // (only ADD/DUP shift positions)
            if name != "GRAPH.ADD" && name != "GRAPH.DUP" && ev.pre.g.len() > 1 && post.g.len() == ev.pre.g.len() {
                ctx.rec.count("snapshot_checks", 1);
                if post.g[1..] != ev.pre.g[1..] {
                    ctx.rec.violation("C18", &format!("{}|snapshot-altered", name), &format!("{} changed a graph below the top: {:?} -> {:?}", name, ev.pre.comp_str(St::Graph), post.comp_str(St::Graph)), "");
                }
            }
            if j % 500 == 0 && step > 6 && step < 10 {
                ctx.rec.sample("graph-step", &format!("{} : {}  =>  {}", name, ev.pre.summary(), post.summary()));
            }
        }
    }
}

pub fn run(ctx: &mut Ctx) {
    let mut case: u64 = 0;
    // exhaustive histories on <= 3 node slots (slot 3 = never issued)
    let k = if ctx.is_fuzz() { 0 } else { ctx.n(3, 4) };
    let ops = op_alphabet(3);
    let nops = ops.len() as u64;
    let mut space = 0u64;
    // histories start with two nodes so that edges are possible within short histories
    for len in 1..=k {
        let total = nops.pow(len as u32);
        for code in 0..total {
            case += 1;
            space += 1;
            if !ctx.mine(case) {
                continue;
            }
            let mut c = code;
            let mut h = vec![Op::AddNode(1), Op::AddNode(2)];
            for _ in 0..len {
                h.push(ops[(c % nops) as usize].clone());
                c /= nops;
            }
            ctx.rec.case_marker_throttled(case, "exhaustive graph history", 256);
            run_hist(ctx, &h);
            if code == total / 3 && len == k {
                ctx.rec.sample("exhaustive-history", &format!("{:?}", h));
            }
        }
    }
    ctx.rec.note("exhaustive_space", &space.to_string());
    // random histories on up to 12 slots
    let nr = ctx.n(1500, 100000);
    for j in 0..nr as u64 {
        case += 1;
        if !ctx.mine(case) {
            continue;
        }
        let mut r = Rng::derive(ctx.seed, &[18, 77, j]);
        let big = op_alphabet(12);
        let mut h = vec![];
        for _ in 0..(if ctx.is_fuzz() { 50 } else { 200 }) {
            if r.chance(1, 5) {
                h.push(Op::AddNode(r.range(0, 3) as i32));
            } else if r.chance(1, 4) {
                h.push(Op::AddEdge(r.below(13), r.below(13), r.below(9) as i32));
            } else if r.chance(1, 8) {
                // few destinations, so that several edges share one (their list order matters to a careless diff)
                h.push(Op::AddEdge(r.below(13), r.below(2), 3));
                h.push(Op::Snapshot);
            } else if r.chance(1, 8) {
                h.push(Op::ReAddEdge(r.below(13), r.below(2)));
            } else if r.chance(1, 8) {
                // zero-like weights on few edges: +0.0 then -0.0 on the same edge is a change
                let (a, b) = (r.below(3), r.below(2));
                h.push(Op::AddEdge(a, b, 100 + r.below(3) as i32));
                h.push(Op::SetWeight(a, b, 100 + r.below(3) as i32));
                h.push(Op::SetWeight(a, b, 100 + r.below(3) as i32));
            } else {
                h.push(r.pick(&big).clone());
            }
        }
        ctx.rec.case_marker(case, "random graph history");
        run_hist(ctx, &h);
    }
    ctx.rec.checkpoint();
    // sparse observation: read everything once, apply EXACTLY W operations without reading anything back, read
    // again. W sits on and beside powers of two (an 8 / 16 bit revision counter that guards a cached count or
    // a cached printout wraps there and serves the value of W operations ago). Two kinds of stretch:
    // edge toggles that are all effective (every one counts under any definition of "operation"), and the
    // full random alphabet.
    // (every stretch length up to 600 as well: one operation may advance such a counter more than once, so that
    // an 8-bit one wraps at some W below 256; for 16-bit counters only the listed widths are tried)
    let mut widths: Vec<usize> = if ctx.is_fuzz() { vec![] } else { vec![65535, 65536, 65537, 131072] }; // not tape-driven: skipped under the fuzzer
    if !ctx.is_fuzz() {
        widths.extend(1..=600usize);
    }
    for (wi, w) in widths.iter().enumerate() {
        for variant in 0..4u64 {
            case += 1;
            if !ctx.mine(case) {
                continue;
            }
            let mut r = Rng::derive(ctx.seed, &[18, 99, wi as u64, variant]);
            let mut h = H::new();
            let mut pre = vec![];
            for _ in 0..6 {
                pre.push(Op::AddNode(r.range(0, 3) as i32));
            }
            pre.extend([Op::AddEdge(5, 4, 1), Op::AddEdge(4, 5, 2), Op::AddEdge(5, 5, 3)]);
            if variant == 1 {
                pre.push(Op::Snapshot);
            }
            ctx.rec.case_marker(case, "sparse observation");
            let mut failed = false;
            for op in pre.iter() {
                if let Ok(Err(t)) | Err(t) = guarded(|| h.apply(op)) {
                    ctx.rec.violation("C18", "Graph|sparse-observation|setup", &t, "");
                    failed = true;
                    break;
                }
            }
            if failed {
                continue;
            }
            let pairs: [(usize, usize); 7] = [(0, 1), (1, 2), (2, 3), (3, 0), (0, 2), (1, 3), (2, 2)];
            let big = op_alphabet(6);
            let res = guarded(|| -> Result<(), String> {
                for j in 0..*w {
                    let op = if variant < 2 {
                        let (a, b) = pairs[j % 7];
                        if h.model.edges.contains_key(&(h.id(a), h.id(b))) {
                            Op::RemoveEdge(a, b)
                        } else {
                            Op::AddEdge(a, b, (j % 9) as i32)
                        }
                    } else {
                        let op = r.pick(&big).clone();
                        // keep the nodes (a graph without nodes makes every later operation a no-op) and the snapshots
                        if matches!(op, Op::RemoveNode(_) | Op::Snapshot) { Op::AddEdge(r.below(6), r.below(6), 4) } else { op }
                    };
                    h.apply_quiet(&op)?;
                }
                h.observe()
            });
            ctx.rec.count("api_ops", *w as u64);
            ctx.rec.count("sparse_observation_stretches", 1);
            ctx.rec.max("sparse_observation_longest_unobserved_stretch", *w as u64);
            ctx.rec.cover(&format!("sparse|W{}|v{}", if *w <= 600 { (*w / 100) * 100 } else { *w }, variant));
            match res {
                Ok(Ok(())) => {}
                Ok(Err(t)) => ctx.rec.violation("C18", "Graph|sparse-observation|mismatch", &format!("{} ; read, then {} unobserved operations (variant {}), then read again", t, w, variant), ""),
                Err(p) => ctx.rec.violation("C18", &format!("Graph|sparse-observation|panic|{}", panic_sig(&p)), &p, ""),
            }
        }
    }
    ctx.rec.checkpoint();
    instr_part(ctx);
    ctx.rec.checkpoint();
}
