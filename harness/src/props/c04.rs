//! C04 — scalar instructions compute what their documentation says (D monitor, all boundary
//! pairs + random pairs; per-instruction digests for the debug/release comparison).

use crate::dmon::{judged_step, Judge};
use crate::gen::{self, StateOpts, Vals, FLOAT_POOL, INT_POOL};
use crate::mon::{new_iset, sorted_cache};
use crate::rng::Rng;
use crate::snap::*;
use crate::Ctx;

pub const SCALAR: [&str; 41] = [
    "BOOLEAN.=",
    "BOOLEAN.AND",
    "BOOLEAN.OR",
    "BOOLEAN.NOT",
    "BOOLEAN.FROMFLOAT",
    "BOOLEAN.FROMINTEGER",
    "INTEGER.%",
    "INTEGER.*",
    "INTEGER.+",
    "INTEGER.-",
    "INTEGER./",
    "INTEGER.<",
    "INTEGER.=",
    "INTEGER.>",
    "INTEGER.ABS",
    "INTEGER.MAX",
    "INTEGER.MIN",
    "INTEGER.FROMBOOLEAN",
    "INTEGER.FROMFLOAT",
    "FLOAT.%",
    "FLOAT.*",
    "FLOAT.+",
    "FLOAT.-",
    "FLOAT./",
    "FLOAT.<",
    "FLOAT.=",
    "FLOAT.>",
    "FLOAT.MAX",
    "FLOAT.MIN",
    "FLOAT.SIN",
    "FLOAT.COS",
    "FLOAT.TAN",
    "FLOAT.EXP",
    "FLOAT.FROMBOOLEAN",
    "FLOAT.FROMINTEGER",
    "NAME.=",
    "NAME.CAT",
    "CODE.FROMBOOLEAN",
    "CODE.FROMFLOAT",
    "CODE.FROMINTEGER",
    "CODE.FROMNAME",
];

fn class_i(v: i32) -> &'static str {
    match v {
        i32::MIN => "min",
        i32::MAX => "max",
        0 => "0",
        -1 => "-1",
        1 => "1",
        x if x < 0 => "neg",
        _ => "pos",
    }
}
fn class_f(v: f32) -> &'static str {
    if v.is_nan() {
        "nan"
    } else if v.is_infinite() {
        if v > 0.0 { "+inf" } else { "-inf" }
    } else if v == 0.0 {
        if v.is_sign_negative() { "-0" } else { "0" }
    } else if v.abs() >= 1e30 {
        "huge"
    } else if v.abs() < 1e-30 {
        "tiny"
    } else if v < 0.0 {
        "neg"
    } else {
        "pos"
    }
}

pub fn run(ctx: &mut Ctx) {
    let (mut is, names) = new_iset();
    let cache = sorted_cache(&is);
    let judge = Judge { frame: true, reference: true };
    let random_per_instr = ctx.n(6000, 200000);
    let mut case: u64 = 0;
    for (ni, name) in SCALAR.iter().enumerate() {
        if !names.iter().any(|n| n == name) {
            ctx.rec.violation("C04", &format!("{}|not-registered", name), "documented scalar instruction is not in the registry", "");
            continue;
        }
        let mut dig: u64 = 0xcbf29ce484222325;
        // 256 boundary-pool pairs, then every value of the extended pools (source literals, special
        // points of the elementary functions, each with neighbours) once as the TOP operand, then random pairs
        let ext_i = gen::lits().ints.len();
        let ext_f = gen::lits().floats.len();
        let ext = ext_i.max(ext_f);
        let total = 256 + ext + random_per_instr;
        for k in 0..total {
            case += 1;
            // the per-instruction digest must be shard independent: every shard runs every
            // instruction but only its own slice of the random cases; pairs are split too
            if if ctx.is_fuzz() { !ctx.mine(case) } else { (k % ctx.nshards) != ctx.shard } {
                continue;
            }
            let mut r = Rng::derive(ctx.seed, &[4, ni as u64, k as u64]);
            let mut s = gen::snap(&mut r, &StateOpts { vals: Vals::Mixed, max_depth: 3, graphs: k % 7 == 0, io: k % 5 == 0, bindings: true, flags: false, random_cfg: false }, &names);
            let (ia, ib, fa, fbv);
            if k < 256 {
                ia = INT_POOL[k / 16];
                ib = INT_POOL[k % 16];
                fa = FLOAT_POOL[k / 16];
                fbv = FLOAT_POOL[k % 16];
            } else if k < 256 + ext {
                let j = k - 256;
                ia = gen::int(&mut r, Vals::Mixed);
                ib = if ext_i > 0 { gen::lits().ints[j % ext_i] } else { gen::int(&mut r, Vals::Mixed) };
                fa = gen::float(&mut r, Vals::Mixed);
                fbv = if ext_f > 0 { gen::lits().floats[j % ext_f] } else { gen::float(&mut r, Vals::Mixed) };
            } else {
                ia = gen::int(&mut r, Vals::Mixed);
                ib = gen::int(&mut r, Vals::Mixed);
                fa = gen::float(&mut r, Vals::Mixed);
                fbv = gen::float(&mut r, Vals::Mixed);
            }
            // second item = left operand (a), top = b
            s.i.insert(0, ia);
            s.i.insert(0, ib);
            s.f.insert(0, fb(fa));
            s.f.insert(0, fb(fbv));
            s.b.insert(0, k & 1 == 1);
            s.b.insert(0, k & 2 == 2);
            s.n.insert(0, gen::name(&mut r));
            s.n.insert(0, gen::name(&mut r));
            let mut st = build_state(&s);
            ctx.rec.case_marker(case, name);
            let ev = judged_step("C04", name, &mut st, &mut is, &cache, &mut ctx.rec, judge, &format!("case={} k={}", case, k));
            ctx.rec.count("steps", 1);
            let d = match &ev.post {
                Some(p) => p.digest(),
                None => 0xDEAD,
            };
            dig = (dig ^ d).wrapping_mul(0x100000001b3).rotate_left(7) ^ k as u64;
            let key = if name.starts_with("FLOAT") || name.ends_with("FROMFLOAT") {
                format!("{}|{}|{}", name, class_f(fa), class_f(fbv))
            } else {
                format!("{}|{}|{}", name, class_i(ia), class_i(ib))
            };
            ctx.rec.cover(&key);
            if k < 2 || (k == 300 && ni % 8 == 0) {
                if let Some(p) = &ev.post {
                    ctx.rec.sample("step", &format!("{} : {}  =>  {}", name, ev.pre.summary(), p.summary()));
                }
            }
        }
        if !ctx.is_fuzz() {
            ctx.rec.note(&format!("dig|{}|{}/{}", name, ctx.shard, ctx.nshards), &format!("{:016x}", dig));
        }
        // back-to-back executions through the SAME instruction set on operands that compare equal
        // (or almost) and are different values: an instruction that remembers its last operands or
        // result answers the second one wrongly. Every shard runs these (they are few).
        if !ctx.is_fuzz() {
            let next = |f: f32| f32::from_bits(f.to_bits() + 1);
            let fpairs: [(f32, f32); 8] = [(0.0, -0.0), (-0.0, 0.0), (1.5, next(1.5)), (next(0.25), 0.25), (0.25, 0.2504), (f32::NAN, f32::NAN), (1.0e30, -1.0e30), (100.0, 100.0)];
            let ipairs: [(i32, i32); 5] = [(0, -0), (7, 8), (i32::MAX, i32::MIN), (-1, 1), (5, 5)];
            for (j, ((fa1, fa2), (ia1, ia2))) in fpairs.iter().zip(ipairs.iter().cycle()).enumerate() {
                for (fa, ia) in [(*fa1, *ia1), (*fa2, *ia2), (*fa1, *ia1)] {
                    let mut s = Snap::empty();
                    s.i = vec![ia, 3, 9];
                    s.f = vec![fb(fa), fb(2.5), fb(-1.0)];
                    s.b = vec![true, false];
                    s.n = vec!["a".into(), "b".into()];
                    let mut st = build_state(&s);
                    let _ = judged_step("C04", name, &mut st, &mut is, &cache, &mut ctx.rec, judge, &format!("back-to-back sequence {} operand {} / {}", j, fa, ia));
                    ctx.rec.count("steps", 1);
                    ctx.rec.count("back_to_back_steps", 1);
                }
            }
        }
        ctx.rec.set_add("instructions", name);
    }
    ctx.rec.checkpoint();
}
