//! C11 — printing a program and parsing the text back reproduces the program.
//! Round trip through all three print paths (Item::to_string, PushStack::to_string of EXEC/CODE
//! with several items, CODE.PRINT) on random trees; structural equality without floats, textual
//! fixpoint with floats; also for trees from pushr's own random code generator.

use crate::mon::{guarded, new_iset, panic_sig, sorted_cache, step_named};
use crate::rng::Rng;
use crate::snap::*;
use crate::Ctx;
use pushr::push::instructions::InstructionCache;
use pushr::push::parser::PushParser;
use pushr::push::random::CodeGenerator;
use pushr::push::state::PushState;

// includes names that start or end with characters text tools like to strip (byte order mark, zero width
// space / joiner, soft hyphen, word joiner): none of them is whitespace, all are ordinary name characters
const NAMES: [&str; 24] = ["a", "foo", "x1", "Bar-2", "a.b", "secretive-turn", "CODE.", "integer.+", "(x", "x)", "f(x)", "()", "a,b", "[1,2]", "INT", "TRUE1", "1a", "é", "\u{feff}x", "\u{feff}", "\u{200b}y", "z\u{200d}", "\u{ad}q", "\u{2060}w"];

fn tree(r: &mut Rng, depth: usize, floats: bool, instr: &[String]) -> SItem {
    if depth == 0 || r.chance(2, 5) {
        match r.below(if floats { 6 } else { 5 }) {
            0 => SItem::Int(if r.bool() { *r.pick(&[0, 1, -1, 7, 42, i32::MAX, i32::MIN, -1000, 16777217, i32::MIN + 1]) } else { crate::gen::int(r, crate::gen::Vals::Mixed) }),
            1 => SItem::Bool(r.bool()),
            2 => SItem::Name(r.pick(&NAMES).to_string()),
            3 => SItem::Instr(r.pick(instr).clone()),
            4 => SItem::Instr(if r.chance(1, 3) { r.pick(&CUSTOM_INSTRUCTIONS).to_string() } else { r.pick(instr).clone() }),
            _ => SItem::Float(fb(*r.pick(&[0.0f32, -0.0, 1.0, 2.5, -3.125, 0.1, 1e-5, 123456.79, 1e30, -1e-40, f32::MAX, f32::INFINITY, f32::NEG_INFINITY, f32::NAN, 0.9994, 0.9996]))),
        }
    } else {
        let n = r.below(5);
        SItem::List((0..n).map(|_| tree(r, depth - 1, floats, instr)).collect())
    }
}

fn has_float(t: &SItem) -> bool {
    match t {
        SItem::Float(_) => true,
        SItem::List(v) => v.iter().any(has_float),
        _ => false,
    }
}

/// parse `text` into a fresh state, return EXEC (top first)
fn parse(text: &str, is: &pushr::push::instructions::InstructionSet) -> Result<(Vec<SItem>, String), String> {
    let mut st = PushState::new();
    // the state parsed into is not a blank one: it has bindings, some of them spelled like registered
    // instructions or like literals (parsing does not consult the bindings)
    for (k, key) in ["INTEGER.+", "a", "foo", "CODE.QUOTE", "NAME.QUOTE", "MyInstruction", "1", "TRUE"].iter().enumerate() {
        st.name_bindings.insert(key.to_string(), pushr::push::item::Item::int(k as i32));
    }
    st.quote_name = text.len() % 2 == 0;
    guarded(|| PushParser::parse_program(&mut st, is, text))?;
    let printed = st.exec_stack.to_string();
    Ok((Snap::of(&st).e, printed))
}

fn check_roundtrip(ctx: &mut Ctx, path: &str, items: &[SItem], text: &str, is: &pushr::push::instructions::InstructionSet) {
    ctx.rec.count("round_trips", 1);
    match parse(text, is) {
        Err(p) => ctx.rec.violation("C11", &format!("{}|panic|{}", path, panic_sig(&p)), &format!("parsing printed text panicked: {} ; text {:?}", p, text), ""),
        Ok((back, reprinted)) => {
            let floats = items.iter().any(has_float);
            if !floats {
                if back != items {
                    let show = |v: &[SItem]| v.iter().map(|x| x.to_string()).collect::<Vec<_>>().join(" | ");
                    ctx.rec.violation("C11", &format!("{}|not-structurally-equal", path), &format!("printed {:?} parses back to [{}] instead of [{}]", text, show(&back), show(items)), "");
                }
            }
            // textual fixpoint (with or without floats)
            if reprinted != text.trim() {
                ctx.rec.violation("C11", &format!("{}|print-parse-print", path), &format!("printed {:?}, parsed and printed again {:?}", text, reprinted), "");
            }
        }
    }
}

const CUSTOM_INSTRUCTIONS: [&str; 6] = ["MyInstruction", "my.instr", "X", "foo-bar", "Integer.plus", "ÄÖ"];

pub fn run(ctx: &mut Ctx) {
    let (mut is, mut names) = new_iset();
    // instructions registered by the embedding program (README: InstructionSet::add) are
    // registered instructions too
    for n in CUSTOM_INSTRUCTIONS.iter() {
        is.add(n.to_string(), pushr::push::instructions::Instruction::new(|_s: &mut PushState, _c: &InstructionCache| {}));
        names.push(n.to_string());
    }
    names.sort();
    // a second instruction set built in ANOTHER ORDER of API calls: load, parse something, and only
    // then register the embedding program's instructions (a lookup structure built lazily at the first
    // parse must still see them)
    let mut is_late = pushr::push::instructions::InstructionSet::new();
    is_late.load();
    is_late.add("EXEC.CMD".to_string(), pushr::push::instructions::Instruction::new(crate::mon::exec_cmd_stub));
    {
        let mut warm = PushState::new();
        let _ = guarded(|| PushParser::parse_program(&mut warm, &is_late, "( 1 INTEGER.DUP foo )"));
    }
    for n in CUSTOM_INSTRUCTIONS.iter() {
        is_late.add(n.to_string(), pushr::push::instructions::Instruction::new(|_s: &mut PushState, _c: &InstructionCache| {}));
    }
    let cache = sorted_cache(&is);
    let n = ctx.n(40000, 6000000);
    for k in 0..n as u64 {
        if !ctx.mine(k) {
            continue;
        }
        let mut r = Rng::derive(ctx.seed, &[11, k]);
        let floats = k % 3 == 0;
        let nitems = 1 + r.below(4);
        let mut items: Vec<SItem> = (0..nitems).map(|_| { let d = r.below(5); tree(&mut r, d, floats, &names) }).collect();
        // one case in 16: the FIRST printed token is a bare name (start-of-text handling)
        if k % 16 == 3 {
            items.insert(0, SItem::Name(r.pick(&NAMES).to_string()));
        }
        // one case in 24: very deep nesting (depths around powers of two and around every limit
        // written as a literal in pushr's source), with siblings left behind on the way out
        // (every 24th case in the quick tier, every 240th of the 150 times larger thorough tier)
        if k % (if ctx.quick() { 24 } else { 240 }) == 7 {
            let d = crate::gen::depth_tail(&mut r);
            let inner = items.pop().unwrap();
            items.push(crate::gen::deep_wrap(&mut r, inner, d));
        }
        ctx.rec.case_marker(k, "round trip");
        // path 1: Item::to_string of a single item
        let one = items[0].to_item();
        let text1 = match guarded(|| one.to_string()) {
            Ok(t) => t,
            Err(p) => {
                ctx.rec.violation("C11", &format!("Item::to_string|panic|{}", panic_sig(&p)), &p, "");
                continue;
            }
        };
        if text1 != items[0].printed() {
            ctx.rec.violation("C11", "Item::to_string|format", &format!("printed {:?} but the documented form is {:?}", text1, items[0].printed()), "");
        }
        check_roundtrip(ctx, "Item::to_string", &items[0..1], &text1, if k % 2 == 1 { &is_late } else { &is });
        // path 2: PushStack::to_string with several items (EXEC and CODE print the same way)
        let mut st = PushState::new();
        for it in items.iter().rev() {
            st.exec_stack.push(it.to_item());
            st.code_stack.push(it.to_item());
        }
        let text2 = st.exec_stack.to_string();
        check_roundtrip(ctx, "PushStack::to_string", &items, &text2, if k % 2 == 1 { &is_late } else { &is });
        // path 3: CODE.PRINT
        let o = step_named(&mut st, &mut is, &cache, "CODE.PRINT");
        if let Some(p) = o.panic {
            ctx.rec.violation("C11", &format!("CODE.PRINT|panic|{}", panic_sig(&p)), &p, "");
        } else if let Some(text3) = st.name_stack.get(0).cloned() {
            check_roundtrip(ctx, "CODE.PRINT", &items, &text3, &is);
        } else {
            ctx.rec.violation("C11", "CODE.PRINT|no-output", "CODE.PRINT pushed nothing although CODE is not empty", "");
        }
        let depth = items.iter().map(|x| x.depth()).max().unwrap_or(0);
        let size: usize = items.iter().map(|x| x.points()).sum();
        ctx.rec.cover(&format!("{}|d{}|s{}|n{}", floats, depth, size.min(40) / 4, nitems));
        ctx.rec.max("max_depth", depth as u64);
        ctx.rec.max("max_points", size as u64);
        if k % 1500 == 0 {
            ctx.rec.sample("round-trip", &format!("{:?}", text2));
        }
    }
    // trees from pushr's own generator
    let ng = ctx.n(10000, 1000000);
    for k in 0..ng as u64 {
        if !ctx.mine(k) {
            continue;
        }
        let mut r = Rng::derive(ctx.seed, &[11, 9, k]);
        let mut st = PushState::new();
        if k % 2 == 0 {
            st.name_bindings.insert("a".into(), SItem::Int(1).to_item());
            st.name_bindings.insert("foo".into(), SItem::Int(2).to_item());
        }
        let pts = 1 + r.below(80);
        let gcache = InstructionCache::new(names.clone());
        if let Ok(item) = guarded(|| CodeGenerator::random_code_with_size(&st, &gcache, pts)) {
            let s = SItem::of(&item);
            let text = item.to_string();
            check_roundtrip(ctx, "generated-code", &[s.clone()], &text, &is);
            ctx.rec.count("generated_trees", 1);
            ctx.rec.cover(&format!("gen|{}|d{}", pts.min(80) / 4, s.depth().min(8)));
        }
    }
    ctx.rec.checkpoint();
}
