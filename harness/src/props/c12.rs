//! C12 — random code has the requested size and is built from the given instructions.
//! Predicate monitors over many draws of pushr's (unseedable) generators; each generated
//! program is then executed (C01 oracle) and round-tripped (C11 oracle).

use crate::gen::INT_POOL;
use crate::mon::{guarded, new_iset, panic_sig, sorted_cache, step_named};
use crate::rng::Rng;
use crate::snap::*;
use crate::Ctx;
use pushr::push::instructions::InstructionCache;
use pushr::push::interpreter::PushInterpreter;
use pushr::push::parser::PushParser;
use pushr::push::random::CodeGenerator;
use pushr::push::state::PushState;

fn leaves<'a>(t: &'a SItem, out: &mut Vec<&'a SItem>) {
    match t {
        SItem::List(v) => v.iter().for_each(|x| leaves(x, out)),
        a => out.push(a),
    }
}

fn check_leaves(ctx: &mut Ctx, t: &SItem, instr: &[String], bound: &[String], pnew: f32, what: &str) {
    let mut ls = vec![];
    leaves(t, &mut ls);
    for l in ls {
        let kind = match l {
            SItem::Instr(n) => {
                let ok = if instr.is_empty() { n == "NOOP" } else { instr.contains(n) };
                if !ok {
                    ctx.rec.violation("C12", "leaf|foreign-instruction", &format!("{}: instruction {} is not in the supplied list ({} entries)", what, n, instr.len()), "");
                }
                "instruction"
            }
            SItem::Bool(_) => "bool",
            SItem::Int(_) => "int",
            SItem::Float(f) => {
                let v = fl(*f);
                if !(v >= 0.0 && v < 1.0) {
                    ctx.rec.violation("C12", "leaf|float-out-of-range", &format!("{}: float {} not in [0,1)", what, v), "");
                }
                "float"
            }
            SItem::Name(n) => {
                if pnew == 0.0 && !bound.is_empty() && !bound.contains(n) {
                    ctx.rec.violation("C12", "leaf|unbound-name", &format!("{}: name {:?} drawn although the probability of a new name is 0 and bound names are {:?}", what, n, bound), "");
                }
                "name"
            }
            _ => {
                ctx.rec.violation("C12", "leaf|undocumented-kind", &format!("{}: leaf {} is none of instruction / boolean / integer / float / name", what, l), "");
                "other"
            }
        };
        ctx.rec.count(&format!("leaf_{}", kind), 1);
    }
}

pub fn run(ctx: &mut Ctx) {
    let (mut is, names) = new_iset();
    let cache = sorted_cache(&is);
    let draws = ctx.n(30, 600);
    let mut case: u64 = 0;
    // instruction lists: none, one, the whole registry, a few fixed small ones (with and without NOOP /
    // EXEC.CMD, the two names the generator treats specially) and random sublists of the registry
    let mut lists: Vec<Vec<String>> = vec![vec![], vec!["INTEGER.+".to_string()], names.clone(), vec!["EXEC.CMD".to_string()], vec!["INTEGER.+".to_string(), "EXEC.CMD".to_string(), "NAME.DUP".to_string()], vec!["NOOP".to_string(), "CODE.QUOTE".to_string()]];
    {
        let mut r = Rng::derive(ctx.seed, &[12, 4]);
        for _ in 0..4 {
            let n = 2 + r.below(5);
            lists.push((0..n).map(|_| r.pick(&names).clone()).collect());
        }
    }
    let bindsets: Vec<Vec<&str>> = vec![vec![], vec!["only"], vec!["a", "b", "c"], vec!["two words", "x y z"],
        // every bound name is spelled like an entry of the instruction list / like a literal (a generator that
        // avoids such names has nothing left to choose from and must still return a BOUND name)
        vec!["INTEGER.+", "NOOP"], vec!["EXEC.CMD"], vec!["TRUE", "1", "FALSE"]];
    // (1) exact size
    let mut sizes: Vec<usize> = (1..=80).collect();
    sizes.extend([235, 1034]);
    for n in sizes {
        for (li, list) in lists.iter().enumerate() {
            for (bi, binds) in bindsets.iter().enumerate() {
                for pnew in [0.0f32, 0.001, 1.0] {
                    case += 1;
                    if !ctx.mine(case) {
                        continue;
                    }
                    let mut st = PushState::new();
                    for b in binds {
                        st.name_bindings.insert(b.to_string(), SItem::Int(1).to_item());
                    }
                    st.configuration.new_erc_name_probability = pnew;
                    // interpreter flags and stack contents are not inputs of the generator
                    // (drawn, not derived from the case number: residues of nested loop counters alias)
                    let mut fr = Rng::derive(ctx.seed, &[12, 7, case]);
                    st.quote_name = fr.chance(1, 3);
                    st.send_name = fr.chance(1, 4);
                    if fr.chance(1, 3) {
                        st.name_stack.push("a".to_string());
                        st.int_stack.push(7);
                    }
                    // the documented leaf ranges do not depend on the random-number bounds
                    match case % 5 {
                        1 => {
                            st.configuration.max_random_float = 50.0;
                            st.configuration.min_random_float = -50.0;
                            st.configuration.max_random_integer = 3;
                            st.configuration.min_random_integer = 2;
                        }
                        2 => {
                            st.configuration.max_random_float = 0.25;
                            st.configuration.max_random_integer = 1_000_000;
                        }
                        3 => {
                            st.configuration.max_random_float = -1.0;
                            st.configuration.min_random_float = -2.0;
                            st.configuration.max_random_integer = -5;
                            st.configuration.min_random_integer = -3;
                        }
                        _ => {}
                    }
                    let gcache = InstructionCache::new(list.clone());
                    let bound: Vec<String> = binds.iter().map(|s| s.to_string()).collect();
                    ctx.rec.case_marker(case, &format!("random_code_with_size({})", n));
                    for d in 0..draws {
                        ctx.rec.count("draws", 1);
                        match guarded(|| CodeGenerator::random_code_with_size(&st, &gcache, n)) {
                            Err(p) => {
                                ctx.rec.violation("C12", &format!("random_code_with_size|panic|{}", panic_sig(&p)), &format!("{} ; size {}", p, n), "");
                                break;
                            }
                            Ok(item) => {
                                let t = SItem::of(&item);
                                if t.points() != n {
                                    ctx.rec.violation("C12", "random_code_with_size|wrong-size", &format!("requested {} points, got {}: {}", n, t.points(), t), "");
                                }
                                check_leaves(ctx, &t, list, &bound, pnew, &format!("random_code_with_size({})", n));
                                // executable (C01 oracle) and printable (C11 oracle)
                                if d < 3 && n <= 80 {
                                    let text = item.to_string();
                                    let mut ps = PushState::new();
                                    if let Err(p) = guarded(|| PushParser::parse_program(&mut ps, &is, &text)) {
                                        ctx.rec.violation("C12", &format!("generated|parse-panic|{}", panic_sig(&p)), &format!("{} ; text {:?}", p, text), "");
                                    } else if ps.exec_stack.to_string() != text.trim() {
                                        ctx.rec.violation("C12", "generated|print-parse-print", &format!("{:?} -> {:?}", text, ps.exec_stack.to_string()), "");
                                    }
                                    let mut rs = PushState::new();
                                    rs.configuration.eval_push_limit = 300;
                                    rs.exec_stack.push(item);
                                    let mut wrapped = pushr::push::instructions::InstructionSet::new();
                                    wrapped.load();
                                    wrapped.add("EXEC.CMD".to_string(), pushr::push::instructions::Instruction::new(crate::mon::exec_cmd_stub));
                                    crate::props::c01::wrap_all(&mut wrapped, &names);
                                    if let Err(p) = guarded(|| PushInterpreter::run(&mut rs, &mut wrapped)) {
                                        ctx.rec.violation("C12", &format!("generated|run-panic|{}", panic_sig(&p)), &format!("{} ; program {}", p, text), "");
                                    }
                                    ctx.rec.count("generated_programs_run_and_roundtripped", 1);
                                }
                                if d == 0 && n == 9 && li == 2 && bi == 2 {
                                    ctx.rec.sample("random_code_with_size", &format!("n={} -> {}", n, t));
                                }
                            }
                        }
                    }
                    ctx.rec.cover(&format!("size|{}|l{}|b{}|p{}", n, li, bi, pnew));
                }
            }
        }
    }
    // (1b) million-point programs (the recursion of the generator gets deep only there; a depth
    // guard or a narrow counter inside it shows as lost points): exact size, counted on the Item itself
    {
        fn count(it: &pushr::push::item::Item, depth: usize, maxd: &mut usize) -> usize {
            *maxd = (*maxd).max(depth);
            match it {
                pushr::push::item::Item::List { items } => {
                    let mut n = 1;
                    for k in 0..items.size() {
                        n += count(items.get(k).unwrap(), depth + 1, maxd);
                    }
                    n
                }
                _ => 1,
            }
        }
        let huge: &[usize] = if ctx.quick() { &[1 << 21, 1 << 22] } else { &[1 << 20, 1 << 21, 1 << 22, 3_000_000] };
        for n in huge.iter() {
            for d in 0..ctx.n(3, 8) {
                case += 1;
                if !ctx.mine(case) || ctx.is_fuzz() || ctx.profile != "release" {
                    continue;
                }
                let st = PushState::new();
                let gcache = InstructionCache::new(names.clone());
                ctx.rec.case_marker(case, &format!("random_code_with_size({}) draw {}", n, d));
                ctx.rec.count("draws", 1);
                match guarded(|| CodeGenerator::random_code_with_size(&st, &gcache, *n)) {
                    Err(p) => ctx.rec.violation("C12", &format!("random_code_with_size|panic|{}", panic_sig(&p)), &format!("{} ; size {}", p, n), ""),
                    Ok(item) => {
                        let mut maxd = 0;
                        let got = count(&item, 0, &mut maxd);
                        ctx.rec.max("max_generated_nesting", maxd as u64);
                        ctx.rec.max("max_generated_points", got as u64);
                        if got != *n {
                            ctx.rec.violation("C12", "random_code_with_size|wrong-size", &format!("requested {} points, got {} (nesting depth {})", n, got, maxd), "");
                        }
                    }
                }
                ctx.rec.cover(&format!("huge|{}", n));
            }
        }
    }
    // (2) upper bound
    for m in 0..=40usize {
        case += 1;
        if !ctx.mine(case) {
            continue;
        }
        let st = PushState::new();
        let gcache = InstructionCache::new(names.clone());
        ctx.rec.case_marker(case, &format!("random_code({})", m));
        let mut seen = std::collections::BTreeSet::new();
        for _ in 0..draws * 10 {
            ctx.rec.count("draws", 1);
            match guarded(|| CodeGenerator::random_code(&st, &gcache, m)) {
                Err(p) => {
                    ctx.rec.violation("C12", &format!("random_code|panic|{}", panic_sig(&p)), &format!("{} ; bound {}", p, m), "");
                    break;
                }
                Ok(None) => {
                    if m >= 2 {
                        ctx.rec.violation("C12", "random_code|none-for-valid-bound", &format!("None for bound {}", m), "");
                        break;
                    }
                }
                Ok(Some(item)) => {
                    let pts = SItem::of(&item).points();
                    seen.insert(pts);
                    if m < 2 || pts < 1 || pts > m - 1 {
                        ctx.rec.violation("C12", "random_code|size-out-of-bounds", &format!("bound {} produced {} points", m, pts), "");
                        break;
                    }
                }
            }
        }
        ctx.rec.cover(&format!("bound|{}|{}", m, seen.len().min(3)));
    }
    // (3) CODE.RAND
    for (ci, maxp) in [-25, 0, 1, 2, 3, 25].iter().enumerate() {
        for lim in INT_POOL.iter().chain([2, 5, 24, 26, -24].iter()) {
            case += 1;
            if !ctx.mine(case) {
                continue;
            }
            ctx.rec.case_marker(case, &format!("CODE.RAND {} max {}", lim, maxp));
            for _ in 0..draws {
                let mut st = PushState::new();
                st.configuration.max_points_in_random_expressions = *maxp;
                st.int_stack.push(*lim);
                st.code_stack.push(SItem::Int(5).to_item());
                let o = step_named(&mut st, &mut is, &cache, "CODE.RAND");
                ctx.rec.count("draws", 1);
                if let Some(p) = o.panic {
                    ctx.rec.violation("C12", &format!("CODE.RAND|panic|{}", panic_sig(&p)), &format!("{} ; operand {} max {}", p, lim, maxp), "");
                    break;
                }
                let post = Snap::of(&st);
                let limit = (*lim as i64).abs().min((*maxp as i64).abs());
                let pushed = post.c.len() == 2;
                if !post.i.is_empty() || post.c.last() != Some(&SItem::Int(5)) {
                    ctx.rec.violation("C12", "CODE.RAND|shape", &format!("operand {} max {}: {}", lim, maxp, post.summary()), "");
                    break;
                }
                if limit < 2 {
                    if pushed {
                        ctx.rec.violation("C12", "CODE.RAND|pushed-for-limit-below-2", &format!("operand {} max {}", lim, maxp), "");
                        break;
                    }
                } else if !pushed {
                    ctx.rec.violation("C12", "CODE.RAND|nothing-pushed", &format!("operand {} max {}", lim, maxp), "");
                    break;
                } else {
                    let pts = post.c[0].points() as i64;
                    if pts > limit || pts > (*lim as i64).abs() || pts > (*maxp as i64).abs() {
                        ctx.rec.violation("C12", "CODE.RAND|too-many-points", &format!("operand {} max {} produced {} points", lim, maxp, pts), "");
                        break;
                    }
                }
            }
            ctx.rec.cover(&format!("coderand|{}|{}", ci, lim));
        }
    }
    // (4) decompose
    for k in 1..=60usize {
        case += 1;
        if !ctx.mine(case) {
            continue;
        }
        for _ in 0..draws * 10 {
            ctx.rec.count("draws", 1);
            let mut v = vec![];
            match guarded(|| CodeGenerator::decompose(&mut v, k)) {
                Err(p) => {
                    ctx.rec.violation("C12", &format!("decompose|panic|{}", panic_sig(&p)), &format!("{} ; k={}", p, k), "");
                    break;
                }
                Ok(()) => {
                    if v.iter().any(|x| *x == 0) || v.iter().sum::<usize>() != k || v.is_empty() {
                        ctx.rec.violation("C12", "decompose|not-a-decomposition", &format!("k={} -> {:?}", k, v), "");
                        break;
                    }
                }
            }
        }
        ctx.rec.cover(&format!("decompose|{}", k));
    }
    // (5) rare-event budget: the cheapest generator step, hundreds of millions of times (a part that
    // is zero once in 2^24 draws breaks "exact size" just as surely as one that is zero every time)
    let per_case = ctx.n(3_000_000, 30_000_000);
    for j in 0..64u64 {
        case += 1;
        if !ctx.mine(case) {
            continue;
        }
        ctx.rec.case_marker(case, "decompose rare-event budget");
        let mut v: Vec<usize> = Vec::with_capacity(8);
        let r = guarded(|| {
            for d in 0..per_case {
                let k = 2 + (d + j as usize) % 4;
                v.clear();
                CodeGenerator::decompose(&mut v, k);
                if v.iter().any(|x| *x == 0) || v.iter().sum::<usize>() != k {
                    return Some((k, v.clone()));
                }
            }
            None
        });
        ctx.rec.count("draws", per_case as u64);
        ctx.rec.count("rare_event_draws", per_case as u64);
        match r {
            Err(p) => ctx.rec.violation("C12", &format!("decompose|panic|{}", panic_sig(&p)), &p, ""),
            Ok(Some((k, v))) => ctx.rec.violation("C12", "decompose|not-a-decomposition", &format!("k={} -> {:?} (rare-event budget)", k, v), ""),
            Ok(None) => {}
        }
    }
    let _ = Rng::new(ctx.seed);
    ctx.rec.checkpoint();
}
