//! C14 — execution is deterministic and interpreter instances are mutually isolated.
//! P monitors: the same (program, state) twice in one process with unrelated runs in between;
//! the same cases on 1..16 threads at once; per-block digests for the debug/release comparison;
//! node-id uniqueness under concurrent creation (event log checked offline); CLI cases for the
//! driver. Modes "tsan" and "miri" run the concurrent parts under the sanitizers.

use crate::gen::{self, StateOpts, Vals};
use crate::mon::{guarded, new_iset, panic_sig, sorted_cache};
use crate::out::jesc;
use crate::rng::Rng;
use crate::snap::*;
use crate::Ctx;
use pushr::push::graph::Graph;
use pushr::push::interpreter::PushInterpreter;
use pushr::push::item::Item;
use pushr::push::parser::PushParser;
use pushr::push::state::PushState;
use std::collections::{BTreeMap, BTreeSet};
use std::sync::{Arc, Barrier};

/// instructions a deterministic, id-free program may use
pub fn deterministic_alphabet(names: &[String]) -> Vec<String> {
    names
        .iter()
        .filter(|n| !n.contains("RAND") && *n != "EXEC.CMD")
        .filter(|n| !n.starts_with("GRAPH.") || matches!(n.as_str(), "GRAPH.ADD" | "GRAPH.DUP" | "GRAPH.STACKDEPTH"))
        .cloned()
        .collect()
}

#[derive(Clone)]
pub struct Case {
    pub init: Snap,
}

pub fn make_case(seed: u64, k: u64, alphabet: &[String]) -> Case {
    let mut r = Rng::derive(seed, &[14, k]);
    let mut s = gen::snap(&mut r, &StateOpts { vals: if k % 2 == 0 { Vals::Mixed } else { Vals::Small }, max_depth: 3, graphs: false, io: true, bindings: true, flags: k % 5 == 0, random_cfg: false }, alphabet);
    let pts = 5 + r.below(60);
    let d = 1 + r.below(5);
    let prog = gen::program(&mut r, pts, d, if k % 3 == 0 { Vals::Mixed } else { Vals::Small }, alphabet);
    // one case in six: COMPOSITE names - an identifier that is not bound itself but is made of bound names
    // joined by a blank / dot / dash / nothing (what NAME.CAT builds), as an item of the program and built
    // at run time. Whatever the interpreter does with the parts, it must not do it in the iteration order of
    // the binding table (a std HashMap: the order differs from instance to instance).
    let mut prog = prog;
    if r.chance(1, 6) {
        let parts = ["ca", "cb", "cc", "cd", "ce"];
        let nparts = 2 + r.below(4);
        for (j, p) in parts.iter().take(nparts).enumerate() {
            let def = match r.below(3) {
                0 => SItem::Int(1000 + j as i32),
                1 => SItem::List(vec![SItem::Int(j as i32), SItem::Instr("INTEGER.DUP".to_string())]),
                _ => SItem::Float(fb(j as f32 + 0.5)),
            };
            s.nb.insert(p.to_string(), def);
        }
        let sep = *r.pick(&[" ", " ", " ", ".", "-", "", "  "]);
        let composite = parts[..nparts].join(sep);
        let mut v = vec![SItem::Name(composite), SItem::Name(format!("{} {}", parts[1], parts[0]))];
        // the same built at run time
        v.extend([SItem::Instr("NAME.QUOTE".to_string()), SItem::Name(parts[0].to_string()), SItem::Instr("NAME.QUOTE".to_string()), SItem::Name(parts[1].to_string()), SItem::Instr("NAME.CAT".to_string()), SItem::Instr("CODE.FROMNAME".to_string()), SItem::Instr("CODE.DO".to_string())]);
        v.push(prog);
        prog = SItem::List(v);
        s.q = false;
    }
    // keep size operands inside the envelope: determinism, not resources, is the subject
    s.e = vec![prog];
    s.cfg.eval_push_limit = 300;
    s.cfg.eval_time_limit = 600_000;
    s.cfg.growth_cap = 200;
    Case { init: s }
}

/// run a case to its end, return the digest of the final state (None: outside the envelope)
pub fn run_case(c: &Case, wrapped: bool) -> Result<u64, String> {
    let (mut is, names) = new_iset();
    if wrapped {
        crate::props::c01::wrap_all(&mut is, &names);
    }
    let mut st = build_state(&c.init);
    guarded(|| {
        let _ = PushInterpreter::run(&mut st, &mut is);
    })?;
    Ok(Snap::of(&st).digest())
}

fn node_ids_concurrent(threads: usize, per_thread: usize) -> Vec<Vec<usize>> {
    let barrier = Arc::new(Barrier::new(threads));
    let mut hs = vec![];
    for t in 0..threads {
        let b = barrier.clone();
        hs.push(std::thread::spawn(move || {
            let (mut is, _names) = new_iset();
            let cache = sorted_cache(&is);
            let mut ids = Vec::with_capacity(per_thread);
            let mut g = Graph::new();
            let mut st = PushState::new();
            st.graph_stack.push(Graph::new());
            b.wait();
            for k in 0..per_thread {
                if (k + t) % 2 == 0 {
                    ids.push(g.add_node(k as i32));
                } else {
                    st.int_stack.push(k as i32);
                    st.exec_stack.push(Item::instruction("GRAPH.NODE*ADD".to_string()));
                    PushInterpreter::step(&mut st, &mut is, &cache);
                    if let Some(id) = st.int_stack.pop() {
                        ids.push(id as usize);
                    }
                }
            }
            ids
        }));
    }
    hs.into_iter().map(|h| h.join().unwrap_or_default()).collect()
}

fn check_ids(ctx: &mut Ctx, logs: &[Vec<usize>], what: &str) {
    let mut all = BTreeSet::new();
    let mut total = 0u64;
    for (t, ids) in logs.iter().enumerate() {
        for w in ids.windows(2) {
            if w[1] <= w[0] {
                ctx.rec.violation("C14", "node-ids|not-increasing-per-thread", &format!("{}: thread {} got id {} after {}", what, t, w[1], w[0]), "");
                return;
            }
        }
        for id in ids {
            total += 1;
            if !all.insert(*id) {
                ctx.rec.violation("C14", "node-ids|duplicate", &format!("{}: node id {} was handed out twice ({} threads)", what, id, logs.len()), "");
                return;
            }
        }
    }
    ctx.rec.count("node_ids_observed", total);
}

fn concurrent_digests(cases: &Arc<Vec<Case>>, threads: usize) -> Vec<Vec<Result<u64, String>>> {
    let barrier = Arc::new(Barrier::new(threads));
    let mut hs = vec![];
    for t in 0..threads {
        let b = barrier.clone();
        let cs = cases.clone();
        hs.push(std::thread::spawn(move || {
            b.wait();
            // every thread runs every case, each in a different rotation
            let n = cs.len();
            let mut out = vec![Ok(0u64); n];
            for j in 0..n {
                let k = (j + t * 7) % n;
                out[k] = run_case(&cs[k], false);
            }
            out
        }));
    }
    hs.into_iter().map(|h| h.join().unwrap_or_default()).collect()
}

/// (f) history independence at instruction level: the same (instruction, state) evaluated
/// (1) in a forward sequence on one thread, (2) in the reverse sequence on another thread,
/// (3) alone on a brand-new thread. A hidden cache / static / thread-local consulted by any
/// instruction makes the three disagree.
fn history_independence(ctx: &mut Ctx, alphabet: &[String]) {
    use crate::mon::step_named;
    let per_name = ctx.n(24, 120);
    let mut case: u64 = 0;
    for name in alphabet.iter() {
        case += 1;
        if !ctx.mine(case) {
            continue;
        }
        ctx.rec.case_marker(8_000_000 + case, &format!("history independence {}", name));
        // states: small valid-ish operands; topology instructions get realistic operands
        let mut states: Vec<Snap> = vec![];
        // instructions built on shared helper code with internal tables get more states
        let reps = if name.starts_with("LIST.NEIGHBOR") { per_name * 6 } else { per_name };
        for k in 0..reps as u64 {
            let mut r = Rng::derive(ctx.seed, &[14, 6, case, k]);
            let mut s = gen::snap(&mut r, &StateOpts { vals: Vals::Small, max_depth: 4, graphs: false, io: true, bindings: true, flags: false, random_cfg: false }, alphabet);
            if name.starts_with("LIST.NEIGHBOR") {
                let size = r.range(2, 40) as i32;
                let dims = r.range(1, 3) as i32;
                let index = if r.bool() { size - 1 - r.below(3) as i32 } else { r.below(size as usize) as i32 };
                s.i.insert(0, dims);
                s.i.insert(0, index);
                s.i.insert(0, size);
                if name != "LIST.NEIGHBOR*IDS" {
                    s.i.insert(0, r.below(2) as i32);
                }
                s.f.insert(0, fb(*r.pick(&[1.0f32, 1.5, 2.0, 1.4142135])));
                s.c = (0..r.below(8)).map(|j| SItem::List(vec![SItem::Int(j as i32), SItem::Bool(j % 2 == 0), SItem::Float(fb(j as f32))])).collect();
            }
            s.e.clear();
            // operand affinity: two states in three have all documented operands present, with small
            // positive numbers (so that size / index / length operands are meaningful)
            let fr = crate::frame::frame(name);
            let (mut ni, mut nf) = (0usize, 0usize);
            if let Some(fr) = &fr {
                for (st, n) in fr.needs.iter() {
                    match st {
                        St::Int => ni = ni.max(*n),
                        St::Float => nf = nf.max(*n),
                        St::Bool => while s.b.len() < *n { s.b.push(r.bool()) },
                        St::Name => while s.n.len() < *n { s.n.push(gen::name(&mut r)) },
                        St::Code => while s.c.len() < *n { s.c.push(SItem::List(vec![SItem::Int(1), SItem::Bool(true)])) },
                        St::Exec => while s.e.len() < *n { s.e.push(SItem::Instr("NOOP".into())) },
                        St::BV => while s.bv.len() < *n { s.bv.push(gen::bvec(&mut r, 5)) },
                        St::IV => while s.iv.len() < *n { s.iv.push(gen::ivec(&mut r, 5, Vals::Small)) },
                        St::FV => while s.fv.len() < *n { s.fv.push(gen::fvec(&mut r, 5, Vals::Small)) },
                        St::Index => while s.x.len() < *n { s.x.push((0, 3)) },
                        _ => {}
                    }
                }
            }
            if k % 3 != 2 && !name.starts_with("LIST.NEIGHBOR") {
                while s.i.len() < ni {
                    s.i.push(1);
                }
                while s.f.len() < nf {
                    s.f.push(fb(1.0));
                }
                for p in 0..ni {
                    s.i[p] = 1 + r.below(12) as i32;
                }
                for p in 0..nf {
                    s.f[p] = fb((1 + r.below(16)) as f32 / 8.0);
                }
            }
            // near-duplicates: the same state with ONE numeric operand changed (a cache keyed on a
            // subset of the operands answers the first of them correctly and the others with a stale
            // entry)
            let base = s.clone();
            states.push(s);
            if k % 2 == 0 {
                for p in 0..ni.max(1).min(base.i.len()) {
                    let mut v = base.clone();
                    v.i[p] = v.i[p].wrapping_add(1 + r.below(5) as i32);
                    states.push(v);
                    let mut v = base.clone();
                    v.i[p] = (v.i[p] - 1 - r.below(3) as i32).max(0);
                    states.push(v);
                }
                for p in 0..nf.max(1).min(base.f.len()) {
                    let mut v = base.clone();
                    v.f[p] = fb(fl(v.f[p]) + 0.5);
                    states.push(v);
                }
            }
        }
        let eval_seq = |order: Vec<usize>, states: Vec<Snap>, name: String| -> Vec<(usize, Result<u64, String>)> {
            let (mut is, _n) = new_iset();
            let cache = sorted_cache(&is);
            order
                .into_iter()
                .map(|k| {
                    let mut st = build_state(&states[k]);
                    let o = step_named(&mut st, &mut is, &cache, &name);
                    (k, match o.panic { Some(p) => Err(p), None => Ok(Snap::of(&st).digest()) })
                })
                .collect()
        };
        let n = states.len();
        let fwd: Vec<usize> = (0..n).collect();
        let rev: Vec<usize> = (0..n).rev().collect();
        let (s1, s2, nm1, nm2) = (states.clone(), states.clone(), name.clone(), name.clone());
        let a = std::thread::spawn(move || eval_seq(fwd, s1, nm1)).join().unwrap_or_default();
        let b = std::thread::spawn(move || {
            let (mut is, _n) = new_iset();
            let cache = sorted_cache(&is);
            rev.into_iter()
                .map(|k| {
                    let mut st = build_state(&s2[k]);
                    let o = step_named(&mut st, &mut is, &cache, &nm2);
                    (k, match o.panic { Some(p) => Err(p), None => Ok(Snap::of(&st).digest()) })
                })
                .collect::<Vec<(usize, Result<u64, String>)>>()
        })
        .join()
        .unwrap_or_default();
        let mut by_k_a: BTreeMap<usize, Result<u64, String>> = a.into_iter().collect();
        let by_k_b: BTreeMap<usize, Result<u64, String>> = b.into_iter().collect();
        if std::env::var("PVMON_DEBUG_HIST").is_ok() && name == "FLOATVECTOR.SINE" {
            for k in 0..n {
                eprintln!("SINE k={} i={:?} f={:?} a={:?} b={:?}", k, states[k].i.get(0), states[k].f.iter().take(3).map(|x| fl(*x)).collect::<Vec<_>>(), by_k_a.get(&k), by_k_b.get(&k));
            }
        }
        for k in 0..n {
            ctx.rec.count("history_comparisons", 1);
            ctx.rec.count("runs", 2);
            let ra = by_k_a.remove(&k);
            let rb = by_k_b.get(&k).cloned();
            // (3) alone on a brand-new thread (every 3rd state)
            let rc = if k % 3 == 0 {
                let (sx, nx) = (states[k].clone(), name.clone());
                ctx.rec.count("runs", 1);
                std::thread::spawn(move || {
                    let (mut is, _n) = new_iset();
                    let cache = sorted_cache(&is);
                    let mut st = build_state(&sx);
                    let o = step_named(&mut st, &mut is, &cache, &nx);
                    match o.panic { Some(p) => Err(p), None => Ok(Snap::of(&st).digest()) }
                })
                .join()
                .ok()
            } else {
                rb.clone()
            };
            if ra != rb || rb != rc {
                ctx.rec.violation(
                    "C14",
                    &format!("{}|history-dependent", name),
                    &format!("{} on the same state gives different results depending on what ran before on the thread: forward sequence {:?}, reverse sequence {:?}, alone on a new thread {:?} ; state {}", name, ra, rb, rc, states[k].summary()),
                    "",
                );
                break;
            }
        }
        ctx.rec.cover(&format!("hist|{}", name));
    }
}

/// (g) static-memory write monitor: all interpreter state must live in the PushState value.
/// The writable statics that belong to pushr (symbol table of this very binary, via `nm`) are
/// snapshotted around instruction executions; any pushr static other than the documented
/// node-id counter that changes is hidden process-global state.
fn static_write_monitor(ctx: &mut Ctx, alphabet: &[String]) {
    use crate::mon::step_named;
    let exe = match std::fs::read_link("/proc/self/exe") {
        Ok(p) => p,
        Err(_) => return,
    };
    let out = match std::process::Command::new("nm").args(["-S", "-C", "--defined-only"]).arg(&exe).output() {
        Ok(o) if o.status.success() => String::from_utf8_lossy(&o.stdout).to_string(),
        _ => {
            ctx.rec.inconclusive("C14", "static-write monitor: `nm` not available");
            return;
        }
    };
    // load base of the executable (PIE): first mapping of the exe
    let maps = std::fs::read_to_string("/proc/self/maps").unwrap_or_default();
    let exe_s = exe.to_string_lossy().to_string();
    let mut base: Option<usize> = None;
    let mut rw: Vec<(usize, usize)> = vec![];
    let mut last_end = 0usize;
    for l in maps.lines() {
        let mut it = l.split_whitespace();
        let range = it.next().unwrap_or("");
        let perms = it.next().unwrap_or("");
        let (a, b) = range.split_once('-').unwrap_or(("0", "0"));
        let (a, b) = (usize::from_str_radix(a, 16).unwrap_or(0), usize::from_str_radix(b, 16).unwrap_or(0));
        let fields = l.split_whitespace().count();
        let is_exe = l.ends_with(&exe_s);
        // .bss beyond the end of the file is an anonymous mapping directly behind the executable's
        // last file-backed mapping
        let is_bss_tail = fields == 5 && a == last_end && last_end != 0;
        if !is_exe && !is_bss_tail {
            continue;
        }
        if base.is_none() {
            base = Some(a);
        }
        if perms.starts_with("rw") {
            rw.push((a, b));
        }
        last_end = b;
    }
    let base = match base {
        Some(b) => b,
        None => return,
    };
    // pushr's writable statics
    let mut syms: Vec<(usize, usize, String)> = vec![];
    for l in out.lines() {
        let parts: Vec<&str> = l.splitn(4, ' ').collect();
        if parts.len() < 4 || !matches!(parts[2], "b" | "B" | "d" | "D") || !parts[3].contains("pushr::") {
            continue;
        }
        let (addr, size) = (usize::from_str_radix(parts[0], 16).unwrap_or(0), usize::from_str_radix(parts[1], 16).unwrap_or(0));
        let at = base + addr;
        // only symbols that really lie in a writable mapping of the executable (excludes TLS templates)
        if size == 0 || size > 1 << 20 || addr < 0x1000 {
            continue; // thread-local templates and the like
        }
        if !rw.iter().any(|(a, b)| at >= *a && at + size <= *b) {
            // a writable static of pushr that the monitor cannot locate: say so, never pass silently
            ctx.rec.inconclusive("C14", &format!("static-write monitor: symbol {} (at +{:#x}, {} bytes) is not inside a writable mapping of the executable", parts[3], addr, size));
            continue;
        }
        syms.push((at, size, parts[3].to_string()));
    }
    let read = |syms: &[(usize, usize, String)]| -> Vec<Vec<u8>> { syms.iter().map(|(a, n, _)| unsafe { std::slice::from_raw_parts(*a as *const u8, *n).to_vec() }).collect() };
    // self-test of the monitor: creating a graph node must be seen as a write to NODE_COUNTER
    let before = read(&syms);
    let mut g = Graph::new();
    g.add_node(1);
    let after = read(&syms);
    let seen_counter = syms.iter().enumerate().any(|(i, (_, _, n))| n.contains("NODE_COUNTER") && before[i] != after[i]);
    if !seen_counter {
        ctx.rec.inconclusive("C14", &format!("static-write monitor could not observe NODE_COUNTER change ({} pushr statics found): address computation not validated", syms.len()));
        return;
    }
    ctx.rec.count("pushr_statics_watched", syms.len() as u64);
    for (_, _, n) in syms.iter() {
        ctx.rec.set_add("pushr_statics", n);
    }
    let (mut is, all_names) = new_iset();
    let cache = sorted_cache(&is);
    let per_name = ctx.n(12, 60);
    let mut case = 0u64;
    for name in all_names.iter() {
        case += 1;
        if !ctx.mine(case) {
            continue;
        }
        ctx.rec.case_marker(8_500_000 + case, &format!("static-write monitor {}", name));
        for k in 0..per_name as u64 {
            let mut r = Rng::derive(ctx.seed, &[14, 7, case, k]);
            let mut s = gen::snap(&mut r, &StateOpts { vals: Vals::Small, max_depth: 4, graphs: true, io: true, bindings: true, flags: false, random_cfg: false }, alphabet);
            if name.starts_with("LIST.NEIGHBOR") {
                let size = r.range(2, 40) as i32;
                s.i.insert(0, r.range(1, 3) as i32);
                s.i.insert(0, r.below(size as usize) as i32);
                s.i.insert(0, size);
                if name != "LIST.NEIGHBOR*IDS" {
                    s.i.insert(0, 0);
                }
                s.f.insert(0, fb(1.0));
            }
            s.e.clear();
            let mut st = build_state(&s);
            let b0 = read(&syms);
            let _ = step_named(&mut st, &mut is, &cache, name);
            let b1 = read(&syms);
            ctx.rec.count("static_write_checks", 1);
            ctx.rec.count("runs", 1);
            for (i, (_, _, sym)) in syms.iter().enumerate() {
                if b0[i] != b1[i] && !sym.contains("NODE_COUNTER") {
                    ctx.rec.violation(
                        "C14",
                        &format!("static-write|{}", sym.split("::").last().unwrap_or(sym)),
                        &format!("executing {} wrote to the process-global static {} ({} bytes): interpreter state outside the PushState value ; state {}", name, sym, syms[i].1, s.summary()),
                        "",
                    );
                }
            }
        }
        ctx.rec.cover(&format!("static|{}", name));
    }
}

/// (h) Every deterministic instruction on states whose operands are BOUNDARY values (extremes of
/// i32 / f32, vectors of them, offsets and indices at MIN/MAX): the digest of all post-states per
/// instruction is logged and must be equal in the debug and the release build (arithmetic that
/// panics or wraps depending on the profile shows here whatever the program generator happens to
/// produce). A panic is reported at once.
fn profile_sweep(ctx: &mut Ctx, alphabet: &[String]) {
    use crate::gen::{FLOAT_POOL, INT_POOL};
    use crate::mon::step_named;
    let (mut is, _names) = new_iset();
    let cache = sorted_cache(&is);
    let per_name = ctx.n(40, 400);
    for (ni, name) in alphabet.iter().enumerate() {
        if !ctx.mine(ni as u64) {
            continue;
        }
        let mut dig: u64 = 0xcbf29ce484222325;
        for j in 0..per_name as u64 {
            let mut r = Rng::derive(ctx.seed, &[14, 8, ni as u64, j]);
            let mut s = gen::snap(&mut r, &StateOpts { vals: if j % 2 == 0 { Vals::Boundary } else { Vals::Mixed }, max_depth: 3, graphs: true, io: true, bindings: true, flags: false, random_cfg: false }, alphabet);
            s.e.clear();
            // operands at the extremes on every typed stack, vectors of at least two elements on top
            for _ in 0..3 {
                s.i.insert(0, *r.pick(&INT_POOL));
                s.f.insert(0, fb(*r.pick(&FLOAT_POOL)));
            }
            let vl = 2 + r.below(3);
            s.iv.insert(0, (0..vl).map(|_| *r.pick(&INT_POOL)).collect());
            s.iv.insert(0, (0..vl + 1).map(|_| *r.pick(&INT_POOL)).collect());
            s.fv.insert(0, (0..vl).map(|_| fb(*r.pick(&FLOAT_POOL))).collect());
            s.fv.insert(0, (0..vl + 1).map(|_| fb(*r.pick(&FLOAT_POOL))).collect());
            s.bv.insert(0, (0..vl).map(|_| r.bool()).collect());
            s.bv.insert(0, (0..vl + 1).map(|_| r.bool()).collect());
            let mut st = build_state(&s);
            if !crate::props::c01::envelope_ok(name, &st) {
                ctx.rec.count("outside_envelope_skipped", 1);
                continue;
            }
            ctx.rec.case_marker(8_000_000 + ni as u64, name);
            let o = step_named(&mut st, &mut is, &cache, name);
            ctx.rec.count("profile_sweep_steps", 1);
            ctx.rec.count("runs", 1);
            if let Some(p) = o.panic {
                ctx.rec.violation("C14", &format!("run|panic|{}", panic_sig(&p)), &format!("{} panicked on boundary operands: {} ; state {}", name, p, s.summary()), "");
                dig ^= 0xDEAD;
                continue;
            }
            dig = (dig ^ Snap::of(&st).digest()).wrapping_mul(0x100000001b3).rotate_left(11) ^ j;
        }
        ctx.rec.note(&format!("dig|sweep-{}|{}/{}", name, ctx.shard, ctx.nshards), &format!("{:016x}", dig));
        ctx.rec.cover(&format!("sweep|{}", name));
    }
}

pub fn run(ctx: &mut Ctx) {
    let (_is, names) = new_iset();
    let alphabet = deterministic_alphabet(&names);
    let mode = ctx.mode.clone();
    if mode == "miri" {
        // tiny workload for the UB / data-race interpreter
        let logs = node_ids_concurrent(4, 24);
        check_ids(ctx, &logs, "miri");
        let cases: Arc<Vec<Case>> = Arc::new((0..3).map(|k| make_case(ctx.seed, k, &alphabet)).collect());
        let base: Vec<_> = cases.iter().map(|c| run_case(c, false)).collect();
        for per in concurrent_digests(&cases, 3) {
            for (k, d) in per.iter().enumerate() {
                ctx.rec.count("concurrent_comparisons", 1);
                if *d != base[k] {
                    ctx.rec.violation("C14", "concurrent|digest-differs", &format!("case {} under miri: {:?} vs {:?}", k, d, base[k]), "");
                }
            }
        }
        ctx.rec.count("runs", 12);
        ctx.rec.cover("miri|ids");
        ctx.rec.cover("miri|digests");
        ctx.rec.sample("miri", &format!("4 threads x 24 node ids: {:?}", logs.iter().map(|l| l.len()).collect::<Vec<_>>()));
        return;
    }
    let ncase = if mode == "tsan" { 60 } else { ctx.n(800, 10000) };
    // this shard's cases
    let mut mine: Vec<(u64, Case)> = vec![];
    for k in 0..ncase as u64 {
        if ctx.mine(k) {
            mine.push((k, make_case(ctx.seed, k, &alphabet)));
        }
    }
    // (a) twice in one process with unrelated runs in between; envelope filter via wrapped run
    let mut baseline: BTreeMap<u64, u64> = BTreeMap::new();
    let mut kept: Vec<(u64, Case)> = vec![];
    for (k, c) in mine.iter() {
        ctx.rec.case_marker(*k, &format!("determinism case {}", c.init.e[0]));
        crate::props::c01::ENV_EXIT.with(|e| e.set(false));
        let a0 = crate::alloc::mark();
        let d1 = run_case(c, true);
        let peak = crate::alloc::stats().peak.saturating_sub(a0.live);
        // cases that build large structures are left out: 16 of them at once would be a memory
        // test, not a determinism test
        if crate::props::c01::ENV_EXIT.with(|e| e.get()) || peak > (8 << 20) {
            ctx.rec.count("outside_envelope_skipped", 1);
            continue;
        }
        match d1 {
            Err(p) => {
                ctx.rec.violation("C14", &format!("run|panic|{}", panic_sig(&p)), &format!("{} ; program {}", p, c.init.e[0]), "");
                continue;
            }
            Ok(d) => {
                baseline.insert(*k, d);
                kept.push((*k, c.clone()));
            }
        }
        ctx.rec.count("runs", 1);
    }
    // unrelated runs in between (other programs, graphs, node creation), then again
    let mut noise = Graph::new();
    for j in 0..50 {
        noise.add_node(j);
    }
    for (k, c) in kept.iter().rev() {
        let other = make_case(ctx.seed ^ 0xABCDEF, *k, &alphabet);
        let _ = run_case(&other, true);
        let d2 = run_case(c, false);
        ctx.rec.count("runs", 2);
        ctx.rec.count("repeat_comparisons", 1);
        if d2 != Ok(baseline[k]) {
            ctx.rec.violation("C14", "repeat|digest-differs", &format!("same program and state, different final state on the second run (first {:016x}, second {:?}) ; program {} ; initial {}", baseline[k], d2, c.init.e[0], c.init.summary()), "");
        }
        ctx.rec.cover(&format!("case|{}", k));
    }
    // (a') the AGE of a state is not part of it: a state built long before it is run (longer than its
    // eval_time_limit) must run exactly like a state built just now
    if mode != "tsan" {
        let mut aged = 0;
        for (k, c) in kept.iter().take(400) {
            if aged >= ctx.n(2, 6) {
                break;
            }
            // terminating, quick programs only (the limit must not be the cause of anything)
            let mut quick = c.clone();
            quick.init.cfg.eval_time_limit = 120;
            let t0 = std::time::Instant::now();
            let fresh = run_case(&quick, false);
            if t0.elapsed().as_millis() > 30 || fresh.is_err() {
                continue;
            }
            let (mut is2, _n2) = new_iset();
            let mut st = build_state(&quick.init);
            std::thread::sleep(std::time::Duration::from_millis(300));
            let t1 = std::time::Instant::now();
            let r = guarded(|| {
                let _ = PushInterpreter::run(&mut st, &mut is2);
            });
            if t1.elapsed().as_millis() > 60 {
                // a starved machine: the run itself came near the limit, the comparison says nothing
                ctx.rec.count("aged_state_skipped_slow_run", 1);
                continue;
            }
            let old = r.map(|_| Snap::of(&st).digest());
            ctx.rec.count("runs", 2);
            ctx.rec.count("aged_state_comparisons", 1);
            aged += 1;
            if old != fresh {
                ctx.rec.violation("C14", "aged-state|digest-differs", &format!("case {}: a state built 300 ms before run() (eval_time_limit 120 ms) ended differently from one built just before run(): {:?} vs {:?} ; program {}", k, old, fresh, quick.init.e[0]), "");
            }
        }
    }
    // (c) per-block digests for the offline debug/release comparison (blocks of 10 case numbers)
    let mut blocks: BTreeMap<u64, u64> = BTreeMap::new();
    for (k, d) in baseline.iter() {
        let e = blocks.entry(k / 10).or_insert(0xcbf29ce484222325);
        *e = (*e ^ d).wrapping_mul(0x100000001b3).rotate_left(9) ^ *k;
    }
    for (b, d) in blocks.iter() {
        ctx.rec.note(&format!("dig|block{}|{}/{}", b, ctx.shard, ctx.nshards), &format!("{:016x}", d));
    }
    // (b) the same cases on 1, 2, 4, 8, 16 threads at once
    let shared: Arc<Vec<Case>> = Arc::new(kept.iter().map(|(_, c)| c.clone()).collect());
    let keys: Vec<u64> = kept.iter().map(|(k, _)| *k).collect();
    let tlist: Vec<usize> = if mode == "tsan" { vec![16, 16, 8] } else if ctx.quick() { vec![2, 8, 16] } else { vec![1, 2, 4, 8, 16, 16] };
    for t in tlist {
        ctx.rec.case_marker(9_000_000 + t as u64, &format!("{} threads", t));
        let res = concurrent_digests(&shared, t);
        for (ti, per) in res.iter().enumerate() {
            if per.len() != keys.len() {
                ctx.rec.violation("C14", "concurrent|thread-died", &format!("thread {} of {} produced {} of {} results", ti, t, per.len(), keys.len()), "");
                continue;
            }
            for (j, d) in per.iter().enumerate() {
                ctx.rec.count("concurrent_comparisons", 1);
                ctx.rec.count("runs", 1);
                if *d != Ok(baseline[&keys[j]]) {
                    ctx.rec.violation(
                        "C14",
                        "concurrent|digest-differs",
                        &format!("case {} run on {} threads at once ended in a different state ({:?} vs {:016x}) ; program {}", keys[j], t, d, baseline[&keys[j]], shared[j].init.e[0]),
                        "",
                    );
                }
            }
        }
        ctx.rec.cover(&format!("threads|{}", t));
    }
    // (d) node ids under concurrent creation
    let id_rounds: Vec<(usize, usize)> = if mode == "tsan" { vec![(16, 20000), (16, 20000)] } else if ctx.quick() { vec![(2, 2000), (16, 4000), (8, 4000)] } else { vec![(2, 2000), (4, 20000), (16, 100000), (16, 100000), (8, 50000)] };
    for (t, m) in id_rounds {
        ctx.rec.case_marker(9_100_000, &format!("node ids {} threads x {}", t, m));
        let logs = node_ids_concurrent(t, m);
        check_ids(ctx, &logs, &format!("{} threads x {}", t, m));
        ctx.rec.cover(&format!("ids|{}|{}", t, m));
        if t == 16 {
            ctx.rec.sample("node-ids", &format!("{} threads x {} creations: first ids per thread {:?}", t, m, logs.iter().map(|l| l.first().copied().unwrap_or(0)).collect::<Vec<_>>()));
        }
    }
    // (f) instruction-level history independence, (g) static-memory write monitor,
    // (h) per-instruction boundary sweep for the offline debug/release comparison
    if mode != "tsan" {
        profile_sweep(ctx, &alphabet);
        ctx.rec.checkpoint();
        history_independence(ctx, &alphabet);
        ctx.rec.checkpoint();
        static_write_monitor(ctx, &alphabet);
        ctx.rec.checkpoint();
    }
    // (e) CLI cases for the driver: terminating programs, the library's final CODE / INT text
    if mode != "tsan" && ctx.shard == 0 {
        let (mut is, _) = new_iset();
        let mut n = 0;
        for k in 0..400u64 {
            let mut r = Rng::derive(ctx.seed, &[14, 5, k]);
            let pts = 3 + r.below(30);
            let d = 1 + r.below(4);
            let prog = gen::program(&mut r, pts, d, Vals::Small, &alphabet);
            // half of the programs are given as several top-level items (no enclosing list)
            let text = match (&prog, k % 2) {
                (SItem::List(v), 1) if v.len() > 1 => v.iter().map(gen::render).collect::<Vec<_>>().join(" "),
                _ => gen::render(&prog),
            };
            // four programs are LONG: about a thousand literals laid out flat (the library's default budget is
            // 1000 steps; the front end steps until EXEC is empty and has no budget of its own)
            let text = if k < 4 { (0..[990usize, 1000, 1001, 1100][k as usize]).map(|j| (j % 7).to_string()).collect::<Vec<_>>().join(" ") } else { text };
            if text.len() > 3000 || text.contains("BIN") || !text.is_ascii() {
                continue;
            }
            // library side: parse, copy to CODE as run() does, step until done
            let mut st = PushState::new();
            let cache0 = pushr::push::instructions::InstructionCache::new(vec![]);
            let r2 = guarded(|| {
                // the LIBRARY's way (README): parse, then what run() does - its own copy to CODE
                PushParser::parse_program(&mut st, &is, &text);
                PushInterpreter::copy_to_code_stack(&mut st);
                let mut steps = 0;
                loop {
                    if PushInterpreter::step(&mut st, &mut is, &cache0) {
                        return true;
                    }
                    steps += 1;
                    if steps > 2500 || crate::alloc::stats().live > (64 << 20) {
                        return false;
                    }
                }
            });
            if r2 != Ok(true) {
                continue; // not terminating quickly: the front end has no step limit
            }
            let line = format!("{{\"text\":{},\"code\":{},\"int\":{}}}", jesc(&text), jesc(&st.code_stack.to_string()), jesc(&st.int_stack.to_string()));
            ctx.rec.note(&format!("cli|{}", k), &line);
            n += 1;
            if n >= ctx.n(40, 200) {
                break;
            }
        }
    }
    if let Some((_, c)) = kept.first() {
        ctx.rec.sample("determinism-case", &format!("{} :: {}", c.init.e[0], c.init.summary()));
    }
    ctx.rec.checkpoint();
    // (d') thorough tier, one shard of the optimised build: walk the id space past 2^32 on 16 threads
    // (4.3 * 10^9 creations): an id counter narrower than usize wraps there, and then some thread sees an
    // id that is not larger than its previous one
    if mode != "tsan" && !ctx.quick() && ctx.profile == "release" && ctx.shard == 0 && !ctx.is_fuzz() {
        use pushr::push::graph::Node;
        let per_thread: u64 = (1u64 << 32) / 16 + (1 << 16);
        ctx.rec.case_marker(9_500_000, "node id space walk past 2^32");
        let hs: Vec<_> = (0..16)
            .map(|_| {
                std::thread::spawn(move || {
                    let mut last = Node::new(0).get_id();
                    let first = last;
                    for k in 0..per_thread {
                        let id = Node::new(0).get_id();
                        if id <= last {
                            return Err((k, last, id));
                        }
                        last = id;
                    }
                    Ok((first, last))
                })
            })
            .collect();
        // keep the supervisor's progress marker moving while the threads work
        let mut tick = 0u64;
        while hs.iter().any(|h| !h.is_finished()) {
            std::thread::sleep(std::time::Duration::from_secs(5));
            tick += 1;
            ctx.rec.case_marker(9_500_000 + tick, &format!("node id space walk past 2^32, {} s", tick * 5));
        }
        let mut maxid = 0usize;
        for h in hs {
            match h.join() {
                Ok(Ok((_f, l))) => maxid = maxid.max(l),
                Ok(Err((k, last, id))) => ctx.rec.violation("C14", "node-ids|not-increasing-per-thread", &format!("id space walk: after {} creations on one thread the id went from {} to {} (ids handed out twice in one process)", k, last, id), ""),
                Err(_) => ctx.rec.violation("C14", "node-ids|thread-died", "id space walk thread panicked", ""),
            }
        }
        ctx.rec.count("id_space_walk_creations", per_thread * 16);
        ctx.rec.max("largest_node_id_seen", maxid as u64);
        ctx.rec.cover("ids|space-walk");
    }
    ctx.rec.checkpoint();
}

