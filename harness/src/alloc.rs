//! Counting / capping global allocator: the resource monitor of C15 and the safety net under
//! every other workload. Counts bytes requested and live bytes; refuses (returns null, which
//! makes Rust abort the process via handle_alloc_error) any single request or live total above a
//! configurable cap, after writing an async-signal-safe marker line to stderr. The supervisor
//! (./check) maps such an exit to the case that was running.

use std::alloc::{GlobalAlloc, Layout, System};
use std::sync::atomic::{AtomicU64, AtomicUsize, Ordering};

pub struct CountingAlloc;

static LIVE: AtomicUsize = AtomicUsize::new(0);
static PEAK: AtomicUsize = AtomicUsize::new(0);
static REQUESTED: AtomicU64 = AtomicU64::new(0);
static MAX_SINGLE: AtomicUsize = AtomicUsize::new(0);
static CAP: AtomicUsize = AtomicUsize::new(usize::MAX);
static CAP_HITS: AtomicUsize = AtomicUsize::new(0);

fn note_alloc(size: usize) -> bool {
    let cap = CAP.load(Ordering::Relaxed);
    if size > cap {
        CAP_HITS.fetch_add(1, Ordering::Relaxed);
        marker(size);
        return false;
    }
    let live = LIVE.fetch_add(size, Ordering::Relaxed) + size;
    if live > cap {
        LIVE.fetch_sub(size, Ordering::Relaxed);
        CAP_HITS.fetch_add(1, Ordering::Relaxed);
        marker(size);
        return false;
    }
    REQUESTED.fetch_add(size as u64, Ordering::Relaxed);
    PEAK.fetch_max(live, Ordering::Relaxed);
    MAX_SINGLE.fetch_max(size, Ordering::Relaxed);
    true
}

fn marker(size: usize) {
    // async-signal-safe: format by hand, write(2)
    let mut buf = [0u8; 64];
    let pre = b"ALLOC_CAP size=";
    let mut n = 0;
    for b in pre {
        buf[n] = *b;
        n += 1;
    }
    let mut digits = [0u8; 20];
    let mut d = 0;
    let mut x = size;
    if x == 0 {
        digits[0] = b'0';
        d = 1;
    }
    while x > 0 {
        digits[d] = b'0' + (x % 10) as u8;
        x /= 10;
        d += 1;
    }
    for k in (0..d).rev() {
        buf[n] = digits[k];
        n += 1;
    }
    buf[n] = b'\n';
    n += 1;
    unsafe {
        libc::write(2, buf.as_ptr() as *const libc::c_void, n);
    }
}

unsafe impl GlobalAlloc for CountingAlloc {
    unsafe fn alloc(&self, layout: Layout) -> *mut u8 {
        if !note_alloc(layout.size()) {
            return std::ptr::null_mut();
        }
        let p = System.alloc(layout);
        if p.is_null() {
            LIVE.fetch_sub(layout.size(), Ordering::Relaxed);
        }
        p
    }
    unsafe fn alloc_zeroed(&self, layout: Layout) -> *mut u8 {
        if !note_alloc(layout.size()) {
            return std::ptr::null_mut();
        }
        let p = System.alloc_zeroed(layout);
        if p.is_null() {
            LIVE.fetch_sub(layout.size(), Ordering::Relaxed);
        }
        p
    }
    unsafe fn dealloc(&self, ptr: *mut u8, layout: Layout) {
        LIVE.fetch_sub(layout.size(), Ordering::Relaxed);
        System.dealloc(ptr, layout)
    }
    unsafe fn realloc(&self, ptr: *mut u8, layout: Layout, new_size: usize) -> *mut u8 {
        if new_size > layout.size() {
            if !note_alloc(new_size - layout.size()) {
                return std::ptr::null_mut();
            }
        } else {
            LIVE.fetch_sub(layout.size() - new_size, Ordering::Relaxed);
        }
        let p = System.realloc(ptr, layout, new_size);
        if p.is_null() && new_size > layout.size() {
            LIVE.fetch_sub(new_size - layout.size(), Ordering::Relaxed);
        }
        p
    }
}

#[derive(Clone, Copy, Debug, Default)]
pub struct AllocStats {
    pub requested: u64,
    pub live: usize,
    pub peak: usize,
    pub max_single: usize,
}

pub fn set_cap(bytes: usize) {
    CAP.store(bytes, Ordering::Relaxed);
}
pub fn cap_hits() -> usize {
    CAP_HITS.load(Ordering::Relaxed)
}
pub fn stats() -> AllocStats {
    AllocStats {
        requested: REQUESTED.load(Ordering::Relaxed),
        live: LIVE.load(Ordering::Relaxed),
        peak: PEAK.load(Ordering::Relaxed),
        max_single: MAX_SINGLE.load(Ordering::Relaxed),
    }
}
/// reset the per-interval counters (peak := live, max_single := 0); returns stats before reset
pub fn mark() -> AllocStats {
    let s = stats();
    PEAK.store(s.live, Ordering::Relaxed);
    MAX_SINGLE.store(0, Ordering::Relaxed);
    s
}

/// CPU time consumed by the calling thread, in seconds.
pub fn thread_cpu_s() -> f64 {
    if cfg!(miri) {
        return 0.0; // the interpreter has no CPU-time clock
    }
    let mut ts = libc::timespec { tv_sec: 0, tv_nsec: 0 };
    unsafe {
        libc::clock_gettime(libc::CLOCK_THREAD_CPUTIME_ID, &mut ts);
    }
    ts.tv_sec as f64 + ts.tv_nsec as f64 * 1e-9
}
